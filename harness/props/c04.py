"""C04 - incoming Interests reach exactly the handler of their longest attached prefix; refused
duplicate attach; detach isolation; truthful, deadline-bound reply callback.
Spec: NdnFib.tla (NdnFibMC configurations, NdnFibTrace). See harness/fibcheck.py."""
import json
from harness import fibcheck as fc, fibkit, judge, tlc


def run(ctx):
    ctx.rule = ('A: TLC exhaustive on NdnFib (routing over a 5-name tree incl. the root, all attach/dup/detach '
                'histories up to MaxOps; reply timing vs deadline); B: transition cover of the NdnFib graph executed on '
                'both front-ends with every name representation; C: random histories on an 8-name tree; B and C judged '
                'by TLC (NdnFibTrace). non-trivial = distinct schedule with >=1 Attach, >=1 RecvInterest, >=3 events')
    ctx.assumptions = ['virtual-time loop', 'handler identity is observed through harness closures',
                       'attached-handler count read from the private tries (_fib / _prefix_tree)']
    if 'A' in ctx.stages:
        cfgs = [('v2 routing tree ops<=%d' % ctx.pick(3, 4), fc.mc_cfg('fib-A-route', 'v2', 'tree', 'route', 'v2two', 2, 0, ctx.pick(3, 4))),
                ('v2 reply timing', fc.mc_cfg('fib-A-reply', 'v2', 'small', 'reply', 'v2two', 2, 3, 1, reps=ctx.pick(2, 3))),
                ('legacy routing tree ops<=3', fc.mc_cfg('fib-A-route-l', 'legacy', 'tree', 'route', 'legacy', 2, 0, 3))]
        fc.stage_a(ctx, cfgs)
    if 'B' in ctx.stages:
        for front, V in (('v2', 'v2two'), ('legacy', 'legacy')):
            cfgp = fc.mc_cfg('fib-B-route-' + front, front, 'tree', 'route', V, 1, 0, 3, R='Rep_all', invs=[], props=[])
            fc.stage_b(ctx, front, cfgp, 'routing 1 Interest ops<=3 all representations', max_paths=ctx.pick(800, 15000),
                       graph_key='route-' + front)
        cfgp = fc.mc_cfg('fib-B-reply', 'v2', 'small', 'reply', 'v2two', ctx.pick(1, 2), 3, 1, reps=2, invs=[], props=[])
        fc.stage_b(ctx, 'v2', cfgp, 'reply timing', max_paths=ctx.pick(800, 15000))
    if 'C' in ctx.stages:
        for front in ('v2', 'legacy'):
            fc.stage_c(ctx, front, ctx.pick(300, 4000), 40)
    dispatcher_check(ctx)
    dispatcher_traces(ctx)


def dispatcher_traces(ctx):
    """The Dispatcher is also judged by TLC: the routing schedules of stage B (plain Interests only, no shutdown) and
    random histories are executed on it through the same events and validated against NdnFib (v2 semantics without
    validators)."""
    if 'B' in ctx.stages and 'route-v2' in fc._GRAPHS:
        g, paths = fc._GRAPHS['route-v2']
        sel = paths if len(paths) <= ctx.pick(600, 6000) else ctx.rng.sample(paths, ctx.pick(600, 6000))
        recs = []
        for init, path in sel:
            sched = [e for e in fc.events_of_path(path) if e['a'] in ('Attach', 'AttachDup', 'Detach', 'RecvInterest')]
            # the schedule may detach after a (dropped) Shutdown: keep only the prefix before the first Shutdown
            cut = next((k for k, (a, _, _) in enumerate(path) if a == 'Shutdown'), None)
            if cut is not None:
                sched = [e for e in fc.events_of_path(path[:cut]) if e['a'] in ('Attach', 'AttachDup', 'Detach', 'RecvInterest')]
            if sched:
                recs.append({'ev': fibkit.run_schedule('dispatcher', sched)})
        ctx.traces += len(recs)
        ctx.evaluations += len(recs)
        ctx.note('Dispatcher: %d routing schedules executed and judged by NdnFibTrace' % len(recs))
        judge.judge(ctx, 'NdnFibTrace', lambda dev: fc.trace_cfg('dispatcher'), recs, 'dispatcher', 'fibD-%s' % ctx.prop)


def dispatcher_check(ctx):
    """ndn.app_support.dispatcher.Dispatcher uses the same name tree: random register/unregister histories,
    longest-prefix dispatch compared with the declarative definition (max-length registered prefix)."""
    from ndn.app_support.dispatcher import Dispatcher
    from ndn import encoding as enc
    rng = ctx.rng
    for _ in range(ctx.pick(200, 3000)):
        d = Dispatcher()
        reg = {}
        log = []
        for step in range(12):
          try:
              n = rng.choice(fc.NAMES)
              if tuple(n) in reg and rng.random() < 0.5:
                  d.unregister(fibkit.name_repr(n, rng.choice(fc.REPRS)))
                  del reg[tuple(n)]
              elif tuple(n) in reg:
                  try:
                      d.register(fibkit.name_repr(n, rng.choice(fc.REPRS)), lambda *a: None)
                      ctx.violation('C04/Dispatcher/register-dup/accepted', 'duplicate registration accepted', {'reg': sorted(reg)})
                  except ValueError:
                      pass
              else:
                  h = len(log) + step * 100
                  d.register(fibkit.name_repr(n, rng.choice(fc.REPRS)), (lambda hh: (lambda name, p, ap: log.append(hh)))(h))
                  reg[tuple(n)] = h
              q = rng.choice(fc.NAMES[1:]) + rng.choice([[], ['x']])
              cands = [k for k in reg if list(k) == q[:len(k)]]
              before = len(log)
              ret = d.dispatch(enc.Name.from_str(fibkit.nm(q)), enc.InterestParam(), None)
              want = reg[max(cands, key=len)] if cands else None
              got = log[before:] if len(log) > before else []
              ctx.evaluations += 1
              if (want is None and (ret or got)) or (want is not None and (not ret or got != [want])):
                  ctx.violation('C04/Dispatcher/dispatch/wrong-handler', 'dispatch(%s) -> %s, expected %s' % (q, got, want),
                                {'reg': {'/'.join(k): v for k, v in reg.items()}, 'q': q})
          except Exception as ex:  # noqa
            ctx.violation('C04/Dispatcher/raised:%s' % type(ex).__name__, 'Dispatcher raised %r' % (ex,), {'reg': sorted('/'.join(k) for k in reg)})
            break


def replay(ctx, path):
    with open(path) as f:
        obj = json.load(f)
    if obj.get('kind') != 'trace':
        print(json.dumps(obj, indent=1)[:4000])
        return 0
    front = obj['front']
    sched = [{k: v for k, v in e.items() if k not in ('post', 'raised')} for e in obj['rec']['ev']]
    bad = 0
    for mode in ('debug logging', 'quiet'):          # harness.appkit.log_mode alternates between the two
        rec = {'ev': fibkit.run_schedule(front, sched)}
        rej = judge.validate(ctx, 'NdnFibTrace', fc.trace_cfg(front), [rec], 'replay')
        for i, lno in rej:
            print('rejected at event', lno, json.dumps(rec['ev'][lno - 1] if lno else None))
        print('re-executed on the current tree (%s): %s' % (mode, 'REJECTED' if rej else 'accepted'))
        bad += 1 if rej else 0
    return 1 if bad else 0
