"""C14 - the trust-schema validator accepts exactly packets with a valid chain to the anchor.
Spec: TrustChain.tla / TrustChainTrace.tla.

A  TLC exhaustive on TrustChain (Allowed = Forced = {}): every hierarchy of depth 1..3 (thorough 4)
   under the strict / overlapping-rule schema with one deviation at one link (forged signature,
   substituted key, missing key locator, DigestSha256 instead of a key signature, wrong issuer name
   shape, certificate absent / Nack / timeout, key-locator loop), a second packet under the same leaf
   certificate, a chain under a second anchor; two validator instances with good and bad anchors; all
   orders and cross-instance interleavings of up to 3 validations: verdict = ChainExists (declarative
   form checked equal to the walk on every world), InstanceIndependent, ConstructorRefuses, every
   validation terminates (liveness under fairness). Vacuity: action coverage + witnesses; every
   named deviation yields a TLC counterexample.
B  state graph walked on the real lvs_validator: each world MATERIALISED (real keys, real certificates
   via new_cert, compiled LVS schema, one legacy NDNApp + virtual face per instance, harness producer
   answering certificate Interests as the world says); after every stimulus: constructor outcome,
   certificate Interests on each face, verdicts compared.
   Key algorithms (W.alg: key -> P-224 / P-256 / P-384 / P-521 / RSA-1024 / -2048 / -3072 / Ed25519): the
   worlds WAlgQ / WAlgT of the spec assign an algorithm to each ROLE (anchor, intermediate certificate, packet
   signer) - every pair of (role, algorithm) in quick, every triple in thorough, plus a bad link under every
   algorithm of its signer; in all other graphs the executor draws an assignment per world (the spec's
   transitions do not read W.alg but for the Ed25519 deviation).
   How a link names its signer (W.alias): the worlds WPin* of the spec put, at every link, the signer's FULL name (digest
   of the packet served under the plain name / of another retrievable packet of that name / of a packet nobody serves)
   or its KEY name into the key locator; P2 names the same certificate by its plain name (one certificate, two names,
   both orders, also in flight together).
   Key storage (NewValidator's third parameter): default argument, the library's MemoryKeyStorage / EmptyKeyStorage, an
   application-supplied unbounded / bounded (1, 2 entries) one that may lose its contents at any time (Forget).
   FreshnessPeriod of the certificate packets (W.fp: positive / 0 / absent): WFresh, and drawn per world elsewhere.
C  random certificate graphs (up to 8 certificates, arbitrary key locators incl. loops, 3 roots, a random
   algorithm per key, full / key names in key locators, second packets of a certificate name, a FreshnessPeriod class per
   certificate), 4 instances with a key storage kind each, 10 packets, recorded and judged by TrustChainTrace.
"""
import json, os

from harness import tlc, graph, tlaval
from harness.tlaval import seq
from harness.regkit import Walker, env_labels, fast_dump
from harness.trustkit import Scenario, KeyPool, FAST, world_keys, alg_map, pins_resolvable, AppStorage

ENV = {'NewValidator', 'Validate', 'FetchReply', 'Heal', 'Forget'}
INTERNAL = ['CheckSchema', 'UseAnchor', 'UseCache', 'Fetch', 'VerifySig', 'Verdict']
ALL_DEVS = ['SharedCache', 'LoopRefetch', 'Ed25519Unsupported']
INVS = ['TypeOK', 'StackBounded', 'VerdictIffChain', 'InstanceIndependent', 'ConstructorRefuses', 'Terminated', 'NothingBad']
RELEVANT = {'SharedCache': {'VerdictIffChain', 'InstanceIndependent'},
            'LoopRefetch': {'Terminates'},
            'Ed25519Unsupported': {'VerdictIffChain', 'ConstructorRefuses'}}
INSTS2 = ['v1', 'v2']
INSTS4 = ['v1', 'v2', 'v3', 'v4']


def tla_set(xs):
    return '{' + ', '.join('"%s"' % x for x in xs) + '}'


def consts(insts, maxval, worlds, allowed=(), forced=(), anchors='MCAnchors', maxheal=0, slots=None, same_app=False,
           stores='MCStoreDefault'):
    return {'Inst': tla_set(insts), 'Slots': tla_set(slots or insts), 'SameApp': 'TRUE' if same_app else 'FALSE',
            'MaxVal': maxval, 'MaxHeal': maxheal, 'Allowed': tla_set(allowed), 'Forced': tla_set(forced),
            'WorldSet': '<- %s' % worlds, 'AnchorChoice': '<- %s' % anchors, 'StoreChoice': '<- %s' % stores}


def proj(st):
    insts = sorted(st['inst'])
    return (tuple((a, tuple(seq(st['wire'][a]))) for a in sorted(st['wire'])),
            tuple((o['v'], o['p'], o['r']) for o in seq(st['out'])),
            tuple((v, st['inst'][v]['k']) for v in insts))


def world_py(w):
    """parsed TLC value of W -> plain dict for the executor / JSON"""
    return {'schema': sorted([list(x) for x in w['schema']]), 'roots': sorted(w['roots']), 'shape': dict(w['shape']),
            'certs': {k: dict(v) for k, v in dict(w['certs']).items()}, 'pkts': {k: dict(v) for k, v in dict(w['pkts']).items()},
            'alg': dict(w['alg']) if w.get('alg') else {}, 'sch': w['sch'], 'twin': dict(w['twin']) if w.get('twin') else {},
            'replay': dict(w['replay']) if w.get('replay') else {},
            'alias': {k: dict(v) for k, v in dict(w['alias']).items()} if w.get('alias') else {},
            'fp': dict(w['fp']) if w.get('fp') else {},
            'covers': {k: sorted(v) for k, v in dict(w['covers']).items()}}


def report(ctx, devs, bad, reported, what, robj):
    for inv in sorted(bad):
        expl = [d for d in sorted(devs) if inv in RELEVANT.get(d, ())]
        for d in expl or ['unexplained']:
            if (inv, d) in reported:
                continue
            reported.add((inv, d))
            ctx.violation('C14/lvs_validator/%s/%s' % (inv, d),
                          '%s violated (explained by deviation %s of TrustChain.tla); %s' % (inv, d, what), robj)


# ------------------------------------------------------------------ stage B

class Run:
    """applies stimuli to a Scenario; tracks validations that diverged (the spec records them in `out`)."""
    def __init__(self, world, insts, pool, cache, slots=None, same_app=False):
        self.sc = Scenario(world, insts, pool, cache, slots=slots, same_app=same_app)
        self.diverged = []

    def apply(self, act, args):
        sc = self.sc
        if act == 'NewValidator':
            sc.new_validator(args[0], args[1], args[2] if len(args) > 2 else 'default')
        elif act == 'Forget':
            sc.forget(args[0])
        elif act == 'Validate':
            sc.validate(args[0], args[1])
        elif act == 'FetchReply':
            sc.fetch_reply(args[0], args[1], args[2])
        elif act == 'Heal':
            sc.heal(args[0])
        else:
            raise ValueError(act)

    def obs(self):
        post = self.sc.post()
        self.diverged = [o for o in post['out'] if o['r'] == 'diverged']
        return (tuple((v, tuple(post['wire'][v])) for v in sorted(post['wire'])),
                tuple((o['v'], o['p'], o['r']) for o in post['out']),
                tuple((v, post['inst'][v]) for v in sorted(post['inst'])))

    def close(self):
        self.sc.close()


# at most this many keys of a slow-to-generate algorithm in a drawn assignment
MAX_DRAWN = {'rsa2048': 2, 'rsa3072': 1}


def draw_algs(rng, keys, algs, p_uniform=0.3):
    """an assignment key -> algorithm: one algorithm for all keys, or one drawn per key (anchor, intermediate
    certificates and packet signers of different types)"""
    if rng.random() < p_uniform:
        a = rng.choice([x for x in algs if x not in MAX_DRAWN])
        return {k: a for k in keys}
    out, used = {}, {}
    for k in keys:
        a = rng.choice(algs)
        if used.get(a, 0) >= MAX_DRAWN.get(a, 1000):
            a = rng.choice([x for x in algs if x not in MAX_DRAWN])
        used[a] = used.get(a, 0) + 1
        out[k] = a
    return out


FP_DRAW = ['pos'] * 6 + ['zero', 'none']


def draw_fp(rng, certs):
    """a FreshnessPeriod class per certificate packet (TrustChain.tla: no clause reads W.fp)"""
    return {n: rng.choice(FP_DRAW) for n in sorted(certs)}


def walk(ctx, g, w, init, labels, algs, pool, cache, tag, learn=None, fps=None):
    """algs: None = the world's own assignment W.alg; a dict = the executor's assignment for this world; likewise fps / W.fp"""
    world = world_py(g.state[init]['W'])
    if algs is not None and not world['alg']:
        world['alg'] = dict(algs)
    if fps is not None and not world['fp']:
        world['fp'] = dict(fps)
    world['alg'] = {k: world['alg'].get(k, 'p256') for k in world_keys(world)}
    insts = sorted(g.state[init]['inst'])
    slots = sorted(g.state[init]['val'])
    same_app = sorted(g.state[init]['wire']) == ['app']
    run = Run(world, insts, pool, cache, slots=slots, same_app=same_app)
    kt = json.dumps(world['alg'], sort_keys=True)
    odd = {n: f for n, f in sorted(world['fp'].items()) if f != 'pos'}
    if odd:
        kt += ', FreshnessPeriod %s' % json.dumps(odd, sort_keys=True)
    reported = set()
    done = []
    try:
        belief = w.start(init)
        for act, args in labels:
            if not w.enabled(belief, act, args):
                break
            run.apply(act, args)
            done.append([act] + list(args))
            robj = {'kind': 'path', 'world': world, 'insts': insts, 'slots': slots, 'same_app': same_app, 'labels': done}
            obs = run.obs()
            if run.sc.errors:
                ctx.violation('C14/lvs_validator/executor-error', run.sc.errors[0], robj)
                return len(done)
            raised = [o for o in obs[1] if o[2].startswith('exc:')]
            if raised:
                # a validator must answer True or False; whatever it raises is a violation of its own
                ctx.violation('C14/lvs_validator/%s/raised:%s' % (act, raised[0][2][4:]),
                              'world %s (key algorithms %s): validating %s on %s raised %s instead of returning a verdict; history %s' % (
                                  json.dumps(dict(g.state[init]['W'].get('q', {}))), kt, raised[0][1], raised[0][0],
                                  raised[0][2][4:], json.dumps(done)), robj)
                return len(done)
            cand = w.step(belief, act, args)
            m = frozenset(t for t in cand if proj(g.state[t]) == obs)
            if not m:
                exp = sorted({json.dumps(proj(g.state[t])) for t in cand})[:3]
                pobs = json.dumps(obs)
                fld = 'wire' if all(proj(g.state[t])[0] != obs[0] for t in cand) else \
                    'verdict' if all(proj(g.state[t])[1] != obs[1] for t in cand) else 'constructor'
                q = dict(g.state[init]['W'].get('q', {}))
                ctx.violation('C14/lvs_validator/%s/%s/unexplained' % (act, fld),
                              'world %s (key algorithms %s): after %s%s the implementation shows %s; the specification allows only %s' % (
                                  json.dumps(q), kt, act, args, pobs, exp), robj)
                return len(done)
            belief = m
            devs = Walker.necessary(g, belief, 'dev')
            bad = Walker.necessary(g, belief, 'bad')
            report(ctx, devs, bad, reported, 'world %s key algorithms %s history %s' % (
                json.dumps(dict(g.state[init]['W'].get('q', {}))), kt, json.dumps(done)), robj)
            if learn is not None:
                learn['has'] |= devs
                learn['hasnot'] |= Walker.necessary(g, belief, 'nodev')
        bg = [str(c.get('exception') or c.get('message')) for c in run.sc.sess.loop.errors]
        if bg:
            ctx.violation('C14/lvs_validator/background-error', 'loop exception handler: %s' % bg[0],
                          {'kind': 'path', 'world': world, 'insts': insts, 'slots': slots, 'same_app': same_app, 'labels': done})
    finally:
        run.close()
    return len(done)


def stage_b_many(ctx, specs, pool, cache, learn=None):
    """specs: [(name, constants, key algorithms, max_paths)]; the state graphs are produced side by side, then walked one by one.
    key algorithms: None = the assignment W.alg of the spec's world; a list = the executor draws, once per world of the
    graph, an assignment key -> algorithm from that list (TrustChain.tla: no transition reads W.alg but for the
    Ed25519 deviation, so the list has "ed" only when that deviation is known to be absent)"""
    from concurrent.futures import ThreadPoolExecutor

    def dump(spec):
        cfgp = os.path.join(tlc.BUILD, 'TrustChain_g_%s.cfg' % spec[0])
        tlc.write_cfg(cfgp, constants=spec[1], invariants=['TypeOK'])
        return fast_dump('TrustChain', cfgp, workers=2, tag='c14g-' + spec[0])
    with ThreadPoolExecutor(max_workers=ctx.pick(4, 6)) as ex:
        graphs = list(ex.map(dump, specs))
    for (name, cs, kts, max_paths), g in zip(specs, graphs):
        stage_b(ctx, name, g, pool, cache, kts, max_paths, learn)


def stage_b(ctx, name, g, pool, cache, kts, max_paths=None, learn=None):
    drawn = {}
    ctx.add_tlc('TrustChain graph %s (%d edges)' % (name, g.n_edges), g.tlc)
    w = Walker(g, ENV, proj)
    paths = graph.edge_cover_paths(g, max_len=60, max_paths=max_paths, rng=ctx.rng)
    n = 0
    seen = set()
    for init, path in paths:
        labels = env_labels(path, ENV)
        key = init + json.dumps(labels)
        if key in seen or not labels:
            continue
        seen.add(key)
        if init not in drawn:
            w0 = world_py(g.state[init]['W'])
            drawn[init] = (None if kts is None else draw_algs(ctx.rng, world_keys(w0), kts),
                           None if learn is not None else draw_fp(ctx.rng, w0['certs']))
        algs, fps = drawn[init]
        kt = algs if algs is not None else dict(g.state[init]['W']['alg'] or {})
        k = walk(ctx, g, w, init, labels, algs, pool, cache, name, learn, fps)
        n += 1
        ctx.traces += 1
        ctx.evaluations += k
        q = dict(g.state[init]['W'].get('q', {}))
        acts = [a for a, _ in labels]
        if acts.count('Validate') >= 1 and (q.get('dev') != 'none' or acts.count('Validate') >= 2):
            ctx.nt(['B', name, q, labels, kt])
        ctx.sample({'kind': 'B-path', 'cfg': name, 'world': q, 'kt': kt, 'stimuli': labels[:10]}, limit=4)
    ctx.note('B %s: %d states, %d edges, %d worlds, %d distinct stimulus sequences replayed on materialised hierarchies' % (
        name, len(g.state), g.n_edges, len(g.init), n))


# ------------------------------------------------------------------ stage C

SHAPES_C = ['c1', 'c2', 'c3', 'x']
STRICT = [['c1', 'root'], ['c2', 'c1'], ['c3', 'c2'], ['d1', 'root'], ['d2', 'c1'], ['d3', 'c2'], ['d4', 'c3']]
PEER = STRICT + [['c1', 'c1'], ['c1', 'c2'], ['c1', 'c3'], ['c1', 'x'], ['c2', 'root'], ['c3', 'root'], ['x', 'root']]


def random_world(rng, algs=None, recert=False):
    """recert: a world around a RE-CERTIFIED key (TrustChain.tla: ReWorld, here at random places and sizes): the key of C1
    (certified by a root) certifies a line of 0..3 further certificates, the last of which certifies the key of C1 again
    (C1b, same key name, other issuer); packets and a further certificate are signed with that key and name C1b, others
    name C1. Only the overlapping-rule schema lets a key name come back on a chain. Everything else (faults, forgeries,
    full / key names, loops, storages, histories) is drawn as in every world."""
    sch = 'peer' if recert else rng.choice(['strict'] * 5 + ['peer'] * 3 + ['two', 'twin'])
    rel = {'strict': STRICT, 'peer': PEER, 'two': STRICT + [['r1', 'oproot']], 'twin': STRICT + [['e1', 'root']]}[sch]
    signer_shapes = {}
    for a, b in rel:
        signer_shapes.setdefault(a, []).append(b)
    shape, certs, pkts = {}, {}, {}
    roots = ['R1', 'R2', 'R3']
    for r in roots:
        shape[r] = 'root'
        certs[r] = {'key': 'k' + r, 'kl': r, 'sig': 'k' + r, 'serv': rng.choice(['yes', 'yes', 'absent'])}
    # a badly named and a badly signed anchor
    shape['R4'] = 'x'
    certs['R4'] = {'key': 'kR4', 'kl': 'R4', 'sig': 'kR4', 'serv': 'absent'}
    shape['R5'] = 'root'
    certs['R5'] = {'key': 'kR5', 'kl': 'R5', 'sig': rng.choice(['forged', 'kR1']), 'serv': 'absent'}
    if sch == 'two':
        shape['R6'] = 'oproot'
        certs['R6'] = {'key': 'kR6', 'kl': 'R6', 'sig': 'kR6', 'serv': 'absent'}
    ncert = rng.randint(2, 8)
    cn = ['C%d' % i for i in range(1, ncert + 1)]
    for n in cn:
        shape[n] = rng.choice(['c1', 'c1', 'c2', 'c3', 'x']) if sch != 'peer' else rng.choice(['c1', 'c1', 'c1', 'c2', 'x'])
    shape['Z'] = rng.choice(['c1', 'c2'])       # a certificate name that is referred to but does not exist
    forced, line, below = {}, [], None
    if recert:
        kids = {sh: [a for a, b in rel if b == sh and a[0] == 'c'] for sh in ('c1', 'c2', 'c3')}
        shape['C1'] = 'c1'
        forced['C1'] = rng.choice(roots)
        rest = cn[1:]
        rng.shuffle(rest)
        line = rest[:rng.randint(0, min(3, len(rest)))]
        prev = 'C1'
        for n in line:
            shape[n] = rng.choice(kids[shape[prev]])
            forced[n] = prev
            prev = n
        if len(rest) > len(line) and rng.random() < 0.6:
            below = rest[len(line)]               # a certificate issued with the re-certified key that names C1b
            shape[below] = rng.choice(kids['c1'])
            forced[below] = 'C1b'
    by_shape = {}
    for n in roots + cn:
        by_shape.setdefault(shape[n], []).append(n)

    def pick_signer(sh):
        """mostly a signer the schema allows (so chains exist), sometimes anything"""
        ok = [n for b in signer_shapes.get(sh, []) for n in by_shape.get(b, [])]
        x = rng.random()
        if ok and x < 0.75:
            return rng.choice(ok)
        if x < 0.85:
            return 'Z'
        return rng.choice(roots + cn)
    for n in cn:
        s = forced.get(n) or pick_signer(shape[n])
        x = rng.random()
        certs[n] = {'key': 'k' + n, 'kl': s, 'sig': 'k' + s if s not in ('Z', 'C1b') else 'kC1',
                    'serv': 'yes' if x < 0.8 else rng.choice(['nack', 'timeout', 'absent'])}
        y = rng.random()
        if y < 0.06:
            certs[n]['sig'] = 'forged'
        elif y < 0.12:
            certs[n]['sig'] = 'k' + rng.choice(roots + cn)
        elif y < 0.16:
            certs[n]['kl'] = 'none'
        elif y < 0.20:
            certs[n]['sig'] = rng.choice(['hmac', 'unknownsig', 'hmacpub', 'digestkl', 'wrongtype', 'wrongcurve'])
    # a second certificate of the key name of C1 / C2 (other issuer component): forged, or not retrievable
    twin = {}
    if recert:
        iss = line[-1] if line else 'C1'
        shape['C1b'] = 'c1'
        twin['C1b'] = 'C1'
        certs['C1b'] = {'key': 'kC1', 'kl': iss, 'sig': 'k' + iss, 'serv': 'yes' if rng.random() < 0.9 else rng.choice(['nack', 'timeout', 'absent'])}
        if rng.random() < 0.15:
            certs['C1']['kl'], certs['C1']['sig'] = 'C1b', 'kC1'       # a loop through both certificates of the key
    for base in ('C1', 'C2'):
        if base + 'b' not in twin and rng.random() < 0.4:
            t = base + 'b'
            twin[t] = base
            shape[t] = shape[base]
            certs[t] = dict(certs[base], serv=rng.choice(['yes', 'absent', 'nack']))
            if certs[t]['serv'] == 'yes':
                certs[t]['sig'] = 'forged'
    for i in range(1, 11):
        p = 'P%d' % i
        shape[p] = rng.choice(['d1', 'd2', 'd2', 'd3', 'd4'])
        s = pick_signer(shape[p])
        pkts[p] = {'kl': s, 'sig': 'k' + s if s != 'Z' else 'kC1'}
        y = rng.random()
        if y < 0.08:
            pkts[p]['sig'] = 'forged'
        elif y < 0.14:
            pkts[p]['sig'] = 'k' + rng.choice(roots + cn)
        elif y < 0.18:
            pkts[p] = {'kl': 'none', 'sig': rng.choice(['digest', pkts[p]['sig']])}
        elif y < 0.24:
            pkts[p]['sig'] = rng.choice(['hmac', 'unknownsig', 'hmacpub', 'digestkl', 'wrongtype', 'wrongcurve'])   # right certificate, no valid signature
        elif pkts[p]['kl'] + 'b' in twin and y < 0.5:
            pkts[p]['kl'] += 'b'                  # signed by the same key, names the other certificate of that key name
    if recert:
        # packets signed with the re-certified key that name its lower / its upper certificate, and one under `below`
        for p, signer in (('P8', below), ('P9', 'C1b'), ('P10', 'C1'), ('P7', 'C1b')):
            if signer and (p != 'P7' or rng.random() < 0.5):
                shape[p] = {'c1': 'd2', 'c2': 'd3', 'c3': 'd4'}[shape[signer]]
                pkts[p] = {'kl': signer, 'sig': 'k' + twin.get(signer, signer)}
    replay = {}
    if rng.random() < 0.4 and pkts['P1']['kl'] != 'none':
        # P1r: other name and content, SignatureValue of P1 (validated before or after P1, by any instance)
        shape['P1r'] = shape['P1']
        pkts['P1r'] = {'kl': pkts['P1']['kl'], 'sig': 'replay'}
        replay['P1r'] = 'P1'
        if pkts['P1']['sig'] in ('forged', 'digest', 'hmac', 'unknownsig', 'hmacpub', 'digestkl', 'wrongtype', 'wrongcurve'):
            pkts['P1']['sig'] = 'k' + (pkts['P1']['kl'] if pkts['P1']['kl'] != 'Z' else 'C1')
    rts = {'two': ['root', 'oproot'], 'twin': ['root', 'root2']}.get(sch, ['root'])
    covers = {'root': ['root', 'root2'] if sch == 'twin' else ['root'], 'oproot': ['oproot']}
    world = {'schema': rel, 'roots': rts, 'covers': covers, 'twin': twin, 'replay': replay, 'shape': shape, 'certs': certs, 'pkts': pkts,
             'sch': sch}
    # how a link names its signer (TrustChain.tla: W.alias): the full name of the packet served under the certificate's
    # name (<s>p), of a packet nobody serves (<s>w), of another packet of that name (<s>y: a certificate of that name for
    # another key, issued by the same issuer), or the key name (<s>k)
    alias = {'-': {'base': '-', 'pk': '-', 'kind': 'plain'}}           # (a JSON object TLC reads must not be empty)
    world['alias'] = alias
    real = sorted(certs)

    def pin(el, signed_by_twin_ok):
        s = el['kl']
        kind = rng.choice(['p', 'p', 'w', 'y', 'ysubst', 'k'] if signed_by_twin_ok else ['p', 'p', 'w', 'ysubst', 'k'])
        if kind == 'k' and s in twin:
            s = twin[s]                         # the two certificates of one key name have one key name
        n = s + kind[0]
        undo = (dict(el), n in alias, n in certs, n in shape)
        if n not in alias:
            alias[n] = {'base': s, 'pk': s if kind == 'p' else 'none' if kind == 'k' else n, 'kind': 'key' if kind == 'k' else 'full'}
            shape[n] = 'kn' if kind == 'k' else shape[s]
            if kind == 'p':
                certs[n] = dict(certs[s])
            elif kind[0] == 'y':
                root = certs[s]['kl'] == s
                certs[n] = {'key': 'k' + n, 'kl': n if root else certs[s]['kl'], 'sig': 'k' + n if root else certs[s]['sig'],
                            'serv': rng.choice(['yes', 'yes', 'yes', 'absent', 'nack'])}
                if root:
                    certs[n]['kl'] = s          # "self-signed": names the certificate name it carries itself
        el['kl'] = n
        if kind == 'y' and el['sig'] == 'k' + s:
            el['sig'] = 'k' + n                 # signed with the key of the packet it pins
        if not pins_resolvable(world):
            el.clear()
            el.update(undo[0])
            if not undo[1]:
                del alias[n]
            if not undo[2]:
                certs.pop(n, None)
            if not undo[3]:
                del shape[n]
    for p in sorted(pkts):
        if pkts[p]['kl'] in real and rng.random() < 0.22:
            pin(pkts[p], pkts[p]['sig'] != 'replay' and p != 'P1')
    for n in real:
        if n in certs and certs[n]['kl'] in real and certs[n]['kl'] != n and rng.random() < 0.12:
            pin(certs[n], True)
    for n, a in alias.items():                   # the full name of the packet served under a name: the same record
        if a['kind'] == 'full' and a['pk'] == a['base']:
            certs[n] = dict(certs[a['base']])
    world['fp'] = draw_fp(rng, [n for n in certs if alias.get(n, {'pk': n})['pk'] == n])
    # every key has its own algorithm: roots, intermediate certificates and packet signers of different types
    world['alg'] = draw_algs(rng, world_keys(world), algs or FAST)
    return world


SLOTS6 = ['v1', 'v1b', 'v2', 'v2b', 'v3', 'v4']


STORES_C = ['default', 'default', 'memory', 'empty', 'app', 'fifo1', 'fifo2']


def record(world, rng, pool, same_app=False):
    """4 instances (on 4 applications, or all on one), each with a key storage kind; v1 and v2 may run two validations at once"""
    world = dict(world)
    run = Run(world, INSTS4, pool, None, slots=SLOTS6, same_app=same_app)
    sc = run.sc
    ev = []
    try:
        for v in INSTS4:
            a = rng.choice(['R1', 'R1', 'R2', 'R3', 'R4', 'R5'] + (['R6'] if 'R6' in world['certs'] else []))
            st = rng.choice(STORES_C)
            run.apply('NewValidator', [v, a, st])
            ev.append({'a': 'NewValidator', 'v': v, 'x': a, 'st': st})
            ev[-1]['post'] = post_of(run)
        nval = 0
        heals = 0
        for _ in range(80):
            waiting = sc.waiting()
            free = [s for v in INSTS4 if sc.status[v] == 'ok' and v not in sc.dead for s in [sc.free_slot(v)] if s is not None]
            busy = any(t is not None for t in sc.task.values())
            choices = []
            broken = sorted(n for n, c in world['certs'].items() if c['kl'] != n and sc.serv[n] in ('nack', 'timeout', 'absent'))
            if broken and heals < 3 and not sc.dead and not busy and rng.random() < 0.15:
                choices += ['Heal']
            full = [v for v in INSTS4 if isinstance(sc.storage.get(v), AppStorage) and sc.storage[v].d and sc.status[v] == 'ok']
            if full and rng.random() < 0.3:
                choices += ['Forget']
            if free and nval < 10:
                choices += ['Validate'] * 2
            if waiting:
                choices += ['FetchReply'] * 3
            if not choices:
                break
            a = rng.choice(choices)
            if a == 'Heal':
                n = rng.choice(broken)
                run.apply('Heal', [n])
                heals += 1
                ev.append({'a': 'Heal', 'x': n})
            elif a == 'Forget':
                v = rng.choice(full)
                run.apply('Forget', [v])
                ev.append({'a': 'Forget', 'v': v})
            elif a == 'Validate':
                s = rng.choice(free)
                p = 'P%d' % rng.randint(1, 10)
                if p in ('P1', 'P2') and 'P1r' in world['pkts'] and rng.random() < 0.5:
                    p = 'P1' if rng.random() < 0.5 else 'P1r'
                run.apply('Validate', [s, p])
                nval += 1
                ev.append({'a': 'Validate', 's': s, 'p': p})
            else:
                app, n = rng.choice(waiting)
                kind = sc.serv_of(n)
                if kind in ('timeout', 'absent'):
                    # bound of the spec: the lifetime passes only when the world answers none of the waiting validations
                    if any(sc.serv_of(m) not in ('timeout', 'absent') for _, m in waiting):
                        continue
                if kind == 'yes' and not sc.deliverable(app, n):
                    continue            # bound of the spec: first the answer to the Interest for the plain name
                run.apply('FetchReply', [app, n, kind])
                ev.append({'a': 'FetchReply', 'app': app, 'n': n, 'kind': kind})
            ev[-1]['post'] = post_of(run)
        errs = list(sc.errors)
        bg = [str(c.get('exception') or c.get('message')) for c in sc.sess.loop.errors]
    finally:
        run.close()
    return {'world': world, 'same_app': same_app, 'ev': ev}, errs, bg


def post_of(run):
    wire, out, inst = run.obs()
    return {'wire': {v: list(w) for v, w in wire}, 'out': [{'v': v, 'p': p, 'r': r} for v, p, r in out],
            'inst': {v: k for v, k in inst}}


def judge(ctx, recs, tag, forced):
    """the traces of applications-per-instance and of one shared application are judged in two TLC runs (SameApp is a constant)"""
    rej = []
    for same_app in (False, True):
        idx = [i for i, r in enumerate(recs) if bool(r.get('same_app')) == same_app]
        if idx:
            for i, info in judge_batch(ctx, [recs[i] for i in idx], '%s-%d' % (tag, same_app), forced, same_app):
                rej.append((idx[i - 1] + 1, info))
    return rej


def judge_batch(ctx, recs, tag, forced, same_app):
    tf = os.path.join(tlc.BUILD, 'c14-traces-%s-%s.ndjson' % (tag, ctx.tier))
    with open(tf, 'w') as f:
        for r in recs:
            f.write(json.dumps(r) + '\n')
    cfgp = os.path.join(tlc.BUILD, 'TrustChainTrace_%d.cfg' % same_app)
    tlc.write_cfg(cfgp, spec='TSpec', constants=consts(INSTS4, 10, 'W2', forced[1], forced[0], anchors='AnyAnchor', maxheal=3,
                                                       slots=SLOTS6, same_app=same_app, stores='AnyStore'),
                  invariants=['TypeOK'], constraints=['Mark'], postcondition='Post')
    r, rejected = tlc.validate_traces('TrustChainTrace', cfgp, tf, tag='c14tr')
    ctx.add_tlc('TrustChainTrace (%d traces)' % len(recs), r)
    if r.violated:
        raise tlc.MachineryError('TrustChainTrace: %s violated\n%s' % (r.violated, r.errtrace[:3000]))
    ends = {}
    out = r.out
    pos = 0
    while True:
        i0 = out.find('<<', pos)
        if i0 < 0:
            break
        j = out.find('>>', i0)
        if j < 0:
            break
        txt = ' '.join(out[i0:j + 2].split())
        pos = j + 2
        if not txt.replace(' ', '').startswith('<<"END",'):
            continue
        try:
            v = tlaval.parse(txt)
        except ValueError:
            continue
        ends.setdefault(int(v[1]), []).append((frozenset(v[2]), frozenset(v[3])))
    rej = dict(rejected)
    for i, rec in enumerate(recs, 1):
        robj = {'kind': 'trace', 'rec': rec}
        if i in rej:
            lno = int(rej[i]) if rej[i] else 0
            bad_ev = rec['ev'][lno - 1] if 0 < lno <= len(rec['ev']) else None
            brief = {k: v for k, v in (bad_ev or {}).items() if k != 'post'}
            ctx.violation('C14/lvs_validator/trace/%s/unexplained' % (bad_ev['a'] if bad_ev else 'end'),
                          'recorded execution rejected by TrustChainTrace at event %d %s: observed %s' % (
                              lno, json.dumps(brief), json.dumps((bad_ev or {}).get('post'))[:600]), robj)
            continue
        es = ends.get(i)
        if not es:
            raise tlc.MachineryError('TrustChainTrace: trace %d neither rejected nor explained' % i)
        devs = frozenset.intersection(*[e[0] for e in es])
        bad = frozenset.intersection(*[e[1] for e in es])
        report(ctx, devs, bad, set(), 'recorded execution of %d events on a random certificate graph' % len(rec['ev']), robj)
    return rejected


# ------------------------------------------------------------------ stage A

def timed_run(cfgp, **kw):
    """tlc.run measures with time.time(), which a Session of stage B (running beside stage A) replaces by the
    virtual clock: measure the wall time here with a clock nobody patches."""
    import time
    t = time.perf_counter()
    r = tlc.run('TrustChain', cfgp, **kw)
    r.wall = time.perf_counter() - t
    return r


def stage_a(ctx):
    from concurrent.futures import ThreadPoolExecutor
    workers = ctx.pick(4, 8)
    if ctx.quick:
        big = [('depth<=3, 1 validation', consts(INSTS2, 1, 'W3'), INVS, [], False, True),
               ('depth<=2, 2 validations', consts(INSTS2, 2, 'W2'), INVS, [], False, True),
               ('orders, 2 validations (action coverage)', consts(INSTS2, 2, 'WOrd'), INVS, [], True, True)]
    else:
        big = [('depth<=4, 3 validations', consts(INSTS2, 3, 'W4'), INVS, [], True, True)]
    # a certificate that could not be fetched becomes retrievable between validations: no trace of the earlier failure
    big.append(('healing fetch faults, %d validations' % ctx.pick(2, 3), consts(INSTS2, ctx.pick(2, 3), 'WHeal', anchors='MCAnchorsGood', maxheal=1),
                INVS, [], True, True))
    # schemas with two roots of trust: an anchor matching only one of them is refused, one matching both is accepted
    big.append(('two roots of trust', consts(INSTS2, 1, 'W2R', anchors='MCAnchors2'), INVS, [], False, False))
    # overlapping validations on one instance / two instances on one application
    big.append(('overlap on one instance, %d validations' % ctx.pick(2, 3),
                consts(['v1'], ctx.pick(2, 3), ctx.pick('WOrd', 'W3'), anchors='MCAnchorsGood', slots=['v1', 'v1b']), INVS, [], False, True))
    big.append(('two instances on one application, 2 validations',
                consts(INSTS2, 2, ctx.pick('WOrd', 'W3'), anchors='MCAnchorsGood', same_app=True), INVS, [], False, True))
    # termination (liveness) on a smaller configuration
    big.append(('liveness %s, 2 validations' % ctx.pick('selected worlds', 'depth<=3'), consts(INSTS2, 2, ctx.pick('WOrd', 'W3'), anchors='MCAnchorsGood'),
                ['TypeOK'], ['Terminates'], False, True))
    # key algorithms by role (anchor / intermediate certificate / packet signer): the verdict is that of the chain
    big.append(('key algorithms by role', consts(['v1'], 1, ctx.pick('WAlgQ', 'WAlgT'), anchors='MCAnchorsAlg'), INVS, [], False, False))
    # how a link names its signer: full names (right / other packet / nobody's packet) and key names at every link
    if ctx.quick:
        big.append(('names of the signer, depth<=3, 1 validation', consts(['v1'], 1, 'WPin3', anchors='MCAnchorsGood'), INVS, [], False, False))
        big.append(('names of the signer, depth<=2, 2 validations', consts(['v1'], 2, 'WPin2', anchors='MCAnchorsGood'), INVS, [], False, False))
        big.append(('names of the signer, two instances, 2 validations', consts(INSTS2, 2, 'WPinO', anchors='MCAnchorsGood'), INVS, [], False, False))
    else:
        big.append(('names of the signer, depth<=3, 1 validation', consts(INSTS2, 1, 'WPin3'), INVS, [], False, True))
        big.append(('names of the signer, depth<=3, two instances, 2 validations', consts(INSTS2, 2, 'WPin3', anchors='MCAnchorsGood'), INVS, [], False, True))
    big.append(('one certificate under two names in flight together', consts(['v1'], 2, ctx.pick('WPinO', 'WPin2'), anchors='MCAnchorsGood',
                                                                           slots=['v1', 'v1b']), INVS, [], False, False))
    # key storages: the library's and the application's (bounded, forgetting); the verdict does not depend on them
    big.append(('key storages, %d validations' % ctx.pick(2, 3), consts(['v1'], ctx.pick(2, 3), 'WStore', anchors='MCAnchorsGood',
                                                                       stores=ctx.pick('MCStoreQ', 'MCStoreT')), INVS, [], True, False))
    if not ctx.quick:
        big.append(('key storages, two instances, 2 validations', consts(INSTS2, 2, 'WStore', anchors='MCAnchorsGood', stores='MCStoreQ'), INVS, [], False, True))
        big.append(('liveness key storages and names of the signer', consts(['v1'], 2, 'WStorePin', anchors='MCAnchorsGood', stores='MCStoreQ'),
                    ['TypeOK'], ['Terminates'], False, True))
    # FreshnessPeriod of the certificates on the way
    big.append(('FreshnessPeriod of certificates', consts(['v1'], 2, 'WFresh', anchors='MCAnchorsGood'), INVS, [], False, False))
    # the declarative ChainExists equals the walk on every world (no instances: initial states only)
    big.append(('ChainDefsAgree', consts([], 0, 'WAll4Re'), ['ChainDefsAgree'], [], False, False))
    # re-certified keys: one key with two certificates that both lie on the chain (2..4 fetched certificates), fresh and
    # warmed instances, loops through both certificates
    big.append(('re-certified keys, %d validations' % ctx.pick(2, 3), consts(INSTS2, ctx.pick(2, 3), ctx.pick('WReQ', 'WReT'), anchors='MCAnchorsGood'),
                INVS, [], False, True))
    big.append(('liveness re-certified keys', consts(['v1'], ctx.pick(1, 2), ctx.pick('WReQ', 'WReT'), anchors='MCAnchorsGood',
                                                     slots=ctx.pick(['v1'], ['v1', 'v1b'])), ['TypeOK'], ['Terminates'], False, False))
    jobs = []
    for name, cs, invs, props, cov, heavy in big:
        cfgp = os.path.join(tlc.BUILD, 'TrustChain_a_%s_%s.cfg' % (name.replace('<=', '').replace(', ', '_').replace(' ', '_'), ctx.tier))
        tlc.write_cfg(cfgp, spec='FairSpec' if props else 'Spec', constants=cs, invariants=invs, properties=props)
        jobs.append((name, cfgp, cov, heavy))

    def one(job):
        name, cfgp, cov, heavy = job
        return job, timed_run(cfgp, workers=workers if heavy else 1, heavy=heavy, coverage=cov, tag='c14a')
    with ThreadPoolExecutor(max_workers=ctx.pick(3, 2)) as ex:
        res = list(ex.map(one, jobs))
    for (name, cfgp, cov, heavy), r in res:
        ctx.add_tlc('TrustChain %s' % name, r)
        if r.violated:
            ctx.violation('C14/spec/%s' % r.violated, 'TLC: %s violated in TrustChain (%s, correct design)' % (r.violated, name),
                          {'trace': r.errtrace})
        if cov:
            # Heal is enabled only in the healing configuration (MaxHeal > 0), Forget only with an application's key
            # storage; every other action must occur in each
            for a in (['Heal'] if name.startswith('healing') else ['Forget'] if name.startswith('key storages') else
                      INTERNAL + sorted(ENV - {'Heal', 'Forget'})):
                if r.ok and r.coverage.get(a, (0, 0))[1] == 0:
                    raise tlc.MachineryError('vacuous: action %s never taken' % a)
    small = []
    for wname in ('W_AcceptDeep', 'W_CacheHit', 'W_Refused', 'W_RejectOtherAnchor', 'W_TwoInFlight', 'W_HealedAccept',
                  'W_TwoRootsAccept', 'W_TwoRootsRefuse', 'W_SameInstanceTwice', 'W_AcceptMixedAlgs', 'W_RejectBigKeyLink',
                  'W_PinAccept', 'W_PinTwinAccept', 'W_Refetch', 'W_Evicted', 'W_RecertAccept', 'W_RecertWarm', 'W_RecertLoop') + (() if ctx.quick else ('W_PinBoth', 'W_Forgot')):
        wp = os.path.join(tlc.BUILD, 'TrustChain_w_%s.cfg' % wname)
        tlc.write_cfg(wp, constants=consts(INSTS2, 2, 'WHeal', anchors='MCAnchorsGood', maxheal=1) if wname == 'W_HealedAccept' else
                      consts(INSTS2, 1, 'W2R', anchors='MCAnchors2') if wname.startswith('W_TwoRoots') else
                      consts(['v1'], 2, 'WClean', anchors='MCAnchorsGood', slots=['v1', 'v1b']) if wname == 'W_SameInstanceTwice' else
                      consts(['v1'], 1, 'WAlgQ', anchors='MCAnchorsAlg') if wname in ('W_AcceptMixedAlgs', 'W_RejectBigKeyLink') else
                      consts(['v1'], 1, 'WPin2', anchors='MCAnchorsGood') if wname in ('W_PinAccept', 'W_PinTwinAccept') else
                      consts(['v1'], 2, 'WPinO', anchors='MCAnchorsGood', slots=['v1', 'v1b']) if wname == 'W_PinBoth' else
                      consts(['v1'], 2, 'WReH', anchors='MCAnchorsGood') if wname.startswith('W_Recert') else
                      consts(['v1'], 3 if wname == 'W_Evicted' else 2, 'WStore', anchors='MCAnchorsGood', stores='MCStoreQ')
                      if wname in ('W_Refetch', 'W_Evicted', 'W_Forgot') else
                      consts(INSTS2, 2, 'W3'),
                      invariants=[wname])
        small.append(('witness', wname, wp))
    for d, worlds in (('SharedCache', 'WClean'), ('LoopRefetch', 'WLoop'), ('Ed25519Unsupported', 'WEd')):
        dp = os.path.join(tlc.BUILD, 'TrustChain_d_%s.cfg' % d)
        tlc.write_cfg(dp, constants=consts(INSTS2, 2, worlds, [d]), invariants=['NothingBad'])
        small.append(('deviation', d, dp))

    def two(job):
        return job, timed_run(job[2], workers=2, heavy=False, tag='c14s')
    with ThreadPoolExecutor(max_workers=4) as ex:
        res = list(ex.map(two, small))
    for (kind, what, _), r in res:
        if kind == 'witness' and r.violated != what:
            raise tlc.MachineryError('witness %s not reachable' % what)
        if kind == 'deviation':
            if r.violated != 'NothingBad':
                raise tlc.MachineryError('deviation %s does not violate any property clause in the spec' % what)
            ctx.add_tlc('TrustChain deviation %s -> counterexample' % what, r)


def run(ctx):
    import time
    ctx.rule = ('A: TLC exhaustive on TrustChain. B: transition-cover stimulus sequences of the TrustChain graphs replayed on '
                'lvs_validator over materialised hierarchies. C: random certificate graphs judged by TrustChainTrace. non-trivial = '
                'distinct (world, stimulus sequence, key type) with a deviation in the world or >= 2 validations (B); distinct random '
                'world with >= 3 validations and >= 2 fetches (C)')
    ctx.assumptions = ['PyCryptodome primitives are correct; forged = one flipped bit in the signature value',
                       'legacy NDNApp.express_interest delivers Data/Nack/timeout correctly (C03)',
                       'Checker.check on the generated names equals the schema relation written in TrustChain.tla '
                       '(asserted for every pair of names of every materialised world)',
                       'certificate validity periods and revocation are outside the property']
    pool = KeyPool()
    pool.prefetch({'rsa2048': 3} if ctx.quick else {'rsa2048': 4, 'rsa3072': 4})
    cache = {}
    t0 = time.perf_counter()
    a_thread, a_err = None, []
    if 'A' in ctx.stages:
        # stage A is TLC subprocesses only: it runs beside stages B and C
        import threading

        def run_a():
            try:
                stage_a(ctx)
                ctx.note('stage A wall %.0fs (beside B and C)' % (time.perf_counter() - t0))
            except BaseException as e:  # noqa
                a_err.append(e)
        a_thread = threading.Thread(target=run_a)
        a_thread.start()
    t1 = time.time()
    forced = ([], ALL_DEVS)
    if 'B' in ctx.stages or 'C' in ctx.stages:
        learn = {'has': set(), 'hasnot': set()}
        stage_b_many(ctx, [('learn-cache', consts(INSTS2, 2, 'WClean', ALL_DEVS, anchors='MCAnchorsGood'), ['p256'], ctx.pick(80, 400)),
                           ('learn-loop', consts(['v1'], 1, 'WLoop', ALL_DEVS, anchors='MCAnchorsGood'), ['p256'], None),
                           ('learn-ed', consts(['v1'], 1, 'WEd', ALL_DEVS, anchors='MCAnchorsGood'), None, None)],
                     pool, cache, learn)
        if learn['has'] & learn['hasnot']:
            ctx.violation('C14/lvs_validator/inconsistent-deviation', 'the code shows and does not show %s' % sorted(
                learn['has'] & learn['hasnot']), {'learn': {k: sorted(v) for k, v in learn.items()}})
        forced = (sorted(learn['has'] - learn['hasnot']), [d for d in ALL_DEVS if d not in learn['has'] and d not in learn['hasnot']])
        ctx.note('deviations of TrustChain.tla the code under test has: %s; not decided: %s' % forced)
    if 'B' in ctx.stages:
        has, unk = forced
        # algorithms the executor draws from where the spec's world leaves them open
        kts = [a for a in FAST if a != 'ed' or not (has or unk)] + ['rsa2048'] + ([] if ctx.quick else ['rsa3072'])
        stage_b_many(ctx, [
            # key algorithms by role: anchor / intermediate certificate / packet signer (assignment from the spec's worlds)
            ('keyalgs', consts(['v1'], 1, ctx.pick('WAlgQ', 'WAlgT'), unk, has, anchors='MCAnchorsAlg'), None, None),
            # every world (depth, deviation, link) x every packet, one instance anchored at RA: all paths
            ('links', consts(['v1'], 1, ctx.pick('W3', 'W4'), unk, has, anchors='MCAnchorsGood'), kts, None),
            # ... and with both instances, good and bad anchors
            ('main', consts(INSTS2, ctx.pick(1, 2), ctx.pick('W2', 'W4'), unk, has), kts, ctx.pick(80, 8000)),
            # orders / interleavings of up to 3 validations by two instances on a few worlds
            ('orders', consts(INSTS2, ctx.pick(2, 3), 'WOrd', unk, has, anchors='MCAnchorsGood'), kts, ctx.pick(80, 5000)),
            # fetch fault, Heal, then the same / another packet of the chain again, on the same and on the other instance
            ('heal', consts(INSTS2, ctx.pick(2, 3), 'WHeal', unk, has, anchors='MCAnchorsGood', maxheal=1), kts, ctx.pick(100, 4000)),
            # two certificates of one key name (one good, one forged / not retrievable), packets naming each, both orders
            ('twincert', consts(['v1'], 2, 'WTwin', unk, has, anchors='MCAnchorsGood'), kts, None),
            # ... the same worlds (also: a forgery re-using the signature value of a genuine packet / certificate) with a
            # second, fresh instance
            ('history2', consts(INSTS2, 2, 'WTwin', unk, has, anchors='MCAnchorsGood'), kts, ctx.pick(100, 3000)),
            # schemas with two roots of trust: anchors matching one root only / both
            ('roots', consts(INSTS2, 1, 'W2R', unk, has, anchors='MCAnchors2'), kts, ctx.pick(40, 400)),
            # two validations in progress at once on ONE instance (chains that share / do not share certificates,
            # fetches answered in every order)
            ('overlap', consts(['v1'], 2, 'WOrd', unk, has, anchors='MCAnchorsGood', slots=['v1', 'v1b']), kts, ctx.pick(150, 4000)),
            # two validator instances (anchors RA / RB) built on ONE application
            ('oneapp', consts(INSTS2, 2, 'WOrd', unk, has, anchors='MCAnchorsGood', same_app=True), kts, ctx.pick(150, 4000)),
            ('ed25519', consts(INSTS2, 2, 'WEd', unk, has, anchors='MCAnchorsGood'), None, ctx.pick(30, 400)),
            # how a link names its signer: the full name of the certificate packet (right digest / another packet of that name
            # / a packet nobody serves) or the key name, at every link; a second packet that names the certificate plainly
            ('names', consts(['v1'], 2, ctx.pick('WPin2', 'WPin3'), unk, has, anchors='MCAnchorsGood'), kts, ctx.pick(None, 6000)),
            ('namelinks', consts(['v1'], 1, 'WPin3', unk, has, anchors='MCAnchorsGood') if ctx.quick else consts(INSTS2, 1, 'WPin3', unk, has),
             kts, ctx.pick(60, 3000)),
            ('names-inflight', consts(['v1'], 2, ctx.pick('WPinO', 'WPin2'), unk, has, anchors='MCAnchorsGood', slots=['v1', 'v1b']), kts, ctx.pick(50, 3000)),
            # key storages (the library's MemoryKeyStorage / EmptyKeyStorage, the application's unbounded / bounded one, Forget)
            ('storage', consts(['v1'], ctx.pick(2, 3), 'WStore', unk, has, anchors='MCAnchorsGood', stores=ctx.pick('MCStoreQ', 'MCStoreT')), kts,
             ctx.pick(150, 6000)),
            # re-certified keys (one key, two certificates, both on the chain: 2..4 fetched certificates): every place of the
            # key on the chain x every packet on a fresh instance; then fresh against warmed instances, both orders
            ('recert', consts(['v1'], 1, ctx.pick('WReQ', 'WReT'), unk, has, anchors='MCAnchorsGood'), kts, None),
            ('recert-history', consts(INSTS2, 2, ctx.pick('WReH', 'WReT'), unk, has, anchors='MCAnchorsGood'), kts, ctx.pick(60, 4000)),
            # FreshnessPeriod of the certificates on the way (fetched with MustBeFresh)
            ('fresh', consts(['v1'], 2, 'WFresh', unk, has, anchors='MCAnchorsGood'), kts, ctx.pick(40, 2000))], pool, cache)
        ctx.note('stage B wall %.0fs (incl. learning)' % (time.time() - t1))
    t2 = time.time()
    if 'C' in ctx.stages:
        n = ctx.pick(50, 1500)
        recs = []
        for i in range(n):
            has, unk = forced
            # every 5th world is built around a re-certified key (two certificates of one key on one chain)
            world = random_world(ctx.rng, [a for a in FAST if a != 'ed' or not (has or unk)] + ['rsa2048'] + ([] if ctx.quick else ['rsa3072']),
                                 recert=(i % 5 == 3))
            rec, errs, bg = record(world, ctx.rng, pool, same_app=(i % 3 == 2))
            if errs:
                ctx.violation('C14/lvs_validator/executor-error', errs[0], {'kind': 'trace', 'rec': rec})
            for o in rec['ev'][-1]['post']['out']:
                if o['r'].startswith('exc:'):
                    ctx.violation('C14/lvs_validator/trace/raised:%s' % o['r'][4:],
                                  'validating %s on %s raised %s instead of returning a verdict (random certificate graph)' % (
                                      o['p'], o['v'], o['r'][4:]), {'kind': 'trace', 'rec': rec})
            if bg:
                ctx.violation('C14/lvs_validator/background-error', 'loop exception handler: %s' % bg[0], {'kind': 'trace', 'rec': rec})
            recs.append(rec)
            acts = [e['a'] for e in rec['ev']]
            if acts.count('Validate') >= 3 and acts.count('FetchReply') >= 2:
                ctx.nt(['C', rec['world']['certs'], rec['world']['pkts'], [[e['a'], e.get('v', e.get('s', e.get('app'))), e.get('p', e.get('n'))] for e in rec['ev']]])
        ctx.sample({'kind': 'C-trace', 'certs': recs[0]['world']['certs'],
                    'events': [[e['a'], e.get('v', e.get('s', e.get('app'))), e.get('p', e.get('n', e.get('x')))] for e in recs[0]['ev']][:16]}, limit=6)
        judge(ctx, recs, 'c', forced)
        ctx.traces += len(recs)
        ctx.evaluations += sum(len(r['ev']) for r in recs)
        ctx.note('stage C wall %.0fs' % (time.time() - t2))
    if a_thread is not None:
        a_thread.join()
        if a_err:
            raise a_err[0]


def replay(ctx, path):
    with open(path) as f:
        obj = json.load(f)
    pool = KeyPool()
    if obj.get('kind') == 'path':
        run_ = Run(obj['world'], obj['insts'], pool, None, slots=obj.get('slots'), same_app=obj.get('same_app', False))
        try:
            for lab in obj['labels']:
                run_.apply(lab[0], lab[1:])
                print(lab, '->', json.dumps(post_of(run_)))
        finally:
            run_.close()
        return 0
    if obj.get('kind') == 'trace':
        if not obj['rec']['world'].get('alg'):
            obj['rec']['world']['alg'] = alg_map(obj['rec']['world'])       # recorded before keys had algorithms of their own
        wj = obj['rec']['world']                # recorded before key locators had full names / storages had kinds
        wj.setdefault('alias', {'-': {'base': '-', 'pk': '-', 'kind': 'plain'}})
        wj.setdefault('fp', {n: 'pos' for n in wj['certs']})
        for e in obj['rec']['ev']:
            if e['a'] == 'NewValidator':
                e.setdefault('st', 'default')
        rej = judge(ctx, [obj['rec']], 'replay', ([], ALL_DEVS))
        for v in ctx.violations:
            print(v['sig'], '-', v['what'][:400])
        return 1 if (rej or ctx.violations) else 0
    print(json.dumps(obj, indent=1)[:4000])
    return 0
