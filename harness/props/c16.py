"""C16 - issued certificates are well-formed, correctly named and verifiable.
Spec: NdnPacketsCert.tla (+Cfg, MC, Gen, Trace), CertTime.tla (+MC, Trace).

A  TLC: (1) CertTimeMC walks the calendar day by day (1970.., around 2100 and 2400, up to 9999-12-31) and
   checks the closed-form date arithmetic against the naively stated calendar, inverse and order laws;
   CertTime is also cross-validated against CPython's datetime on 400 instants (disagreement = machinery
   failure); (2) NdnPacketsCertMC: new_cert as Assemble/SignWrap over every enumerated request, LawCert
   (name = key-name/issuer/version, ContentType KEY, content length, ValidityPeriod shape, key locator,
   signed range = everything but outer TL and SignatureValue, all lengths exact after the shrink).
B  TLC (NdnPacketsCertGen) enumerates requests - subject key type x issuing signer (EC P-256/P-384 with
   every DER length, RSA, Ed25519, HMAC, digest) x issuer id (text / typed / 3-byte-type component) x start
   instants x durations x time zones x wall clocks - with the expected certificate; the real self_sign /
   sign_req / derive_cert run with security_v2's clock patched; the wire is projected by the strict reader
   and compared entry by entry; validity text compared with CertTime's rendering; signature verified with
   PyCryptodome over the spec's SignedRange under the issuing public key; parse_certificate / parse_data
   must return the same fields.
C  random requests (key names of 3..8 components of any type, any instant, duration, zone, clock, synthetic
   shrinking signers of any length) recorded as {q, layout, validity text, covered range}, judged by TLC.
Parse/edit histories (NdnPacketsCertParse, NdnPacketsCertParseTrace): "parsing returns those same fields" is decided over
   histories Parse(certificate, buffer kind, parse_certificate | parse_data) / Edit(result held, field, operation): A TLC
   checks ParseReturnsIssued and Independent and refutes the "one remembered result per wire" deviation; B the cover paths of
   the state graph are replayed on real parse results and every holder's view is compared with TLC's state after every
   step; C random longer histories (more certificates, results, every buffer kind) are judged by TLC.
The bytes of the subject key (NdnPacketsCert!EncsOf / BufKinds / ContentExpect) are a dimension of every issuing call: each key
   type in every encoding a caller may hold it in (canonical SubjectPublicKeyInfo, compressed point, explicit curve parameters,
   PKCS#1, PEM, OpenSSH, bare point / raw key, a modulus with a surplus zero, ...), bytes that are no key at all (empty .. long),
   handed over as bytes / bytearray / memoryview / a view into a larger writable buffer that the caller overwrites afterwards.
   B: TLC enumerates encoding x issuing call x buffer (NdnPacketsCertCfg!KeyForms) with the expected observation of the Content
   (is the bytes given; what a relying party imports from it; the certificate verifies under the key it carries); C: random.
The time zone of the issuing process (TZ + tzset, HOSTS) is a dimension of every issuing call in B (NdnPacketsCertCfg!Hosts)
   and C (random requests, signer-reuse histories, certificates of parse histories).
Zones with daylight-saving time (CertTimeZone, cross-validated against zoneinfo every run; laws: CertTimeZoneMC): the start / end datetimes
   are wall-clock reading + PEP 495 fold on a zone's clock - inside the repeated interval (either pass), inside the gap (either fold),
   start and end of one new_cert call on the same clock (zone2).  B: NdnPacketsCertCfg!DstFolds / DstGaps, the executor constructs
   the datetime from TLC's (reading, fold); C: random readings around the changes of ten zones' clocks in any year 2008..9998.
Issuing histories with RELATED datetimes (NdnPacketsCertTimes, NdnPacketsCertTimesTrace): one process issues many certificates whose
   datetimes are the two passes of one reading, the same instant on other clocks, the same reading without a zone: every certificate
   carries the instants of its own request.  A TLC checks EncodesRequested and refutes the "remember the text by the datetime" deviation;
   B the cover paths of the state graph are replayed on the real new_cert / derive_cert and compared with TLC's states; C random
   longer histories (any zone, year, lifetime) are judged by TLC.
Scribbled results (NdnPacketsCertHist!Scribble): what an issuing call returned (name, buffer) and was handed (key name, issuer id)
   is the caller's: it is overwritten in place, and the next certificates must still be named as the reference says.
"""
import json, os, re, time
from datetime import datetime, timedelta, timezone
from zoneinfo import ZoneInfo

from harness import tlc, tlaval, pktkit as pk, strict_tlv as st
from harness.tlc import MachineryError
import ndn.app_support.security_v2 as sv2
from ndn.encoding import parse_data, Component, Name

Name_normalize = Name.normalize

UTC = timezone.utc
NAIVE = -1000
SIGTYPE = {'digest': 0, 'rsa': 1, 'ecdsa': 3, 'hmac': 4, 'ed25519': 5, 'syn': pk.SynSigner.SIG_TYPE}
SUBJ = ['ec256', 'ec384', 'rsa', 'ed25519']
FN_NAME = {'self_sign': 'self_sign', 'sign_req': 'sign_req', 'derive': 'derive_cert', 'new_cert': 'new_cert'}
T0 = datetime(1970, 1, 1)
# the time zone of the issuing PROCESS (TZ + tzset): an environment dimension of every issuing call - random requests,
# signer-reuse histories, certificates issued for parse histories. West / east of UTC, with and without DST,
# offsets that are not whole hours (+05:30, +12:45/+13:45).
HOSTS = ['UTC', 'UTC', 'America/Los_Angeles', 'America/New_York', 'Asia/Kolkata', 'Europe/Berlin', 'Pacific/Auckland', 'Pacific/Chatham']


# ---------------------------------------------------------------- zones with daylight-saving time (CertTimeZone)
# The caller's datetime is a wall-clock reading + fold (PEP 495) on the clock of a zone.  The driver's side of the zone
# arithmetic is zoneinfo; the specification's side is CertTimeZone (rules, WallOf, InstOf); the two are cross-validated every
# run (zone_records -> CertTimeTrace) and on every request / history argument (a disagreement is a machinery failure).

KNOWN_ZONES = ['Europe/Berlin', 'Europe/London', 'Europe/Lisbon', 'Europe/Helsinki', 'America/New_York', 'America/Los_Angeles',
               'Australia/Sydney', 'Australia/Lord_Howe', 'Pacific/Auckland', 'Pacific/Chatham']     # CertTimeZone!KnownZones
ZONE_YEARS = (2008, 9998)                                                                             # CertTimeZone!ZoneYears
_TRANS = {}


def inst_json(t):
    """naive datetime (UTC, or a wall-clock reading) -> CertTime instant {d, s}"""
    x = t.replace(tzinfo=None, fold=0) - T0
    return {'d': x.days, 's': x.seconds}


def inst_dt(i):
    return T0 + timedelta(days=i['d'], seconds=i['s'])


def to_utc(dt):
    """the instant an aware datetime denotes, as a naive UTC datetime (year 1 / 9999 edges: OverflowError)"""
    return dt.astimezone(UTC).replace(tzinfo=None)


def wall_dt(zone, w, fold):
    """the aware datetime a caller writes: reading w = {d, s} on the clock of `zone`, with `fold`"""
    return inst_dt(w).replace(tzinfo=ZoneInfo(zone), fold=fold)


def zone_changes(zone, year):
    """[(instant of the change (naive UTC), offset before, offset after (timedelta))] of `zone` in `year`, found by
    bisection on zoneinfo's utcoffset - the driver does not read the rules of the specification."""
    if (zone, year) not in _TRANS:
        z = ZoneInfo(zone)

        def off(t):
            return t.replace(tzinfo=UTC).astimezone(z).utcoffset()
        out = []
        t = datetime(year, 1, 1)
        while t.year == year and t < datetime(year, 12, 31):
            n = t + timedelta(days=1)
            if off(t) != off(n):
                lo, hi = t, n
                while hi - lo > timedelta(seconds=1):
                    mid = lo + (hi - lo) // 2
                    mid = mid.replace(microsecond=0)
                    if off(mid) == off(lo):
                        lo = mid
                    else:
                        hi = mid
                out.append((hi, off(lo), off(hi)))
            t = n
        _TRANS[zone, year] = out
    return _TRANS[zone, year]


def rand_zone_year(rng):
    return rng.choice([2008, 2024, 2024, 2025, 2037, 2038, 2100, ZONE_YEARS[1], rng.randint(*ZONE_YEARS)])


def rand_near_change(rng, zone, year=None, repeated=None):
    """-> (aware datetime on the clock of `zone`, the change it lies next to).  The reading is chosen on the WALL clock
    around a change of the zone's clock: inside the repeated interval (either pass), inside the gap (either fold), at
    the edges, or some hours away."""
    ch = zone_changes(zone, year or rand_zone_year(rng))
    if repeated is not None:
        ch = [c for c in ch if (c[2] < c[1]) == repeated]
    at, before, after = rng.choice(ch)
    step = abs(before - after)
    lo = at + min(before, after)                # first reading of the repeated interval / of the gap
    x = rng.random()
    if x < 0.6:
        w = lo + timedelta(seconds=rng.choice([0, 1, step.seconds // 2, step.seconds - 1, rng.randrange(step.seconds)]))
    elif x < 0.8:
        w = lo + timedelta(seconds=rng.choice([-1, step.seconds, -step.seconds, 2 * step.seconds - 1]))
    else:
        w = lo + timedelta(seconds=rng.randrange(-4 * 3600, 5 * 3600))
    return w.replace(tzinfo=ZoneInfo(zone), fold=rng.randint(0, 1)), (at, before, after)


def zone_records(rng, n):
    """records for CertTimeTrace!JudgeZone: instants and readings around the changes of every known zone's clock"""
    recs = []
    for k in range(n):
        zone = KNOWN_ZONES[k % len(KNOWN_ZONES)]
        z = ZoneInfo(zone)
        rd, (at, _b, _a) = rand_near_change(rng, zone)
        i = at + timedelta(seconds=rng.choice([-3601, -3600, -1800, -1, 0, 1, 1799, 1800, 3599, 3600, rng.randrange(-90000, 90000)]))
        if rng.random() < 0.2:
            i = datetime(at.year, 1, 1) + timedelta(seconds=rng.randrange(365 * 86400))
        loc = i.replace(tzinfo=UTC).astimezone(z)
        recs.append({'zone': zone, **inst_json(i), 'wd': inst_json(loc)['d'], 'ws': inst_json(loc)['s'], 'fold': loc.fold,
                     'rd': inst_json(rd)['d'], 'rs': inst_json(rd)['s'], 'rf': rd.fold,
                     'id': inst_json(to_utc(rd))['d'], 'is': inst_json(to_utc(rd))['s']})
    return recs


# ---------------------------------------------------------------- the bytes of the subject key

EC_ENCS = ['spki', 'spki-compressed', 'spki-explicit', 'pem', 'pem-compressed', 'openssh', 'point', 'point-compressed']
RSA_ENCS = ['spki', 'spki-noparams', 'pkcs1', 'pkcs1-padded', 'pem', 'pem-pkcs1', 'openssh']
ED_ENCS = ['spki', 'pem', 'openssh', 'raw']
ENCS = {'ec256': EC_ENCS, 'ec384': EC_ENCS, 'rsa': RSA_ENCS, 'ed25519': ED_ENCS}      # + 'opaque' for every type
BUF_KINDS = ['bytes', 'bytearray', 'memoryview', 'memoryview-slice']
OPAQUE_LENS = [0, 1, 2, 31, 32, 33, 44, 64, 91, 100, 252, 253, 294, 300, 1000]


def _pem(label, der):
    import binascii
    b64 = binascii.b2a_base64(der, newline=False)
    return b'-----BEGIN %s-----\n' % label + b'\n'.join(b64[i:i + 64] for i in range(0, len(b64), 64)) + b'\n-----END %s-----' % label


def _tl(t, body):
    n = len(body)
    return bytes([t]) + (bytes([n]) if n < 128 else b'\x81' + bytes([n]) if n < 256 else b'\x82' + n.to_bytes(2, 'big')) + body


def _ec_explicit(pub):
    """SubjectPublicKeyInfo with the curve given by explicit parameters (RFC 3279 ECParameters) instead of its name."""
    from Cryptodome.Util.asn1 import DerSequence, DerBitString, DerObjectId, DerOctetString
    c = pub._curve
    p, b, n, gx, gy = int(c.p), int(c.b), int(c.order), int(c.Gx), int(c.Gy)
    w = (p.bit_length() + 7) // 8
    if (gy * gy - (gx ** 3 - 3 * gx + b)) % p:
        raise MachineryError('curve parameters: the base point is not on the curve')
    fid = DerSequence([DerObjectId('1.2.840.10045.1.1').encode(), p])
    curve = DerSequence([DerOctetString((p - 3).to_bytes(w, 'big')).encode(), DerOctetString(b.to_bytes(w, 'big')).encode()])
    g = DerOctetString(b'\x04' + gx.to_bytes(w, 'big') + gy.to_bytes(w, 'big'))
    params = DerSequence([1, fid.encode(), curve.encode(), g.encode(), n, 1])
    alg = DerSequence([DerObjectId('1.2.840.10045.2.1').encode(), params.encode()])
    return DerSequence([alg.encode(), DerBitString(pub.export_key(format='SEC1')).encode()]).encode()


def subject_key(pool, subj):
    return {'ec256': pool.ec[72][1], 'ec384': pool.ec[104][1], 'rsa': pool.rsa[1], 'ed25519': pool.ed[1]}[subj]


def key_forms(pool):
    """(subject key type, encoding) -> the bytes a caller holds. Built with PyCryptodome's exporters and a hand DER
    writer; nothing of the library under test is involved."""
    if hasattr(pool, 'c16_forms'):
        return pool.c16_forms
    from Cryptodome.Util.asn1 import DerSequence, DerBitString, DerObjectId
    f = {}
    for subj in ('ec256', 'ec384'):
        pub = subject_key(pool, subj)
        f[subj, 'spki'] = pub.export_key(format='DER')
        f[subj, 'spki-compressed'] = pub.export_key(format='DER', compress=True)
        f[subj, 'spki-explicit'] = _ec_explicit(pub)
        f[subj, 'pem'] = pub.export_key(format='PEM').encode()
        f[subj, 'pem-compressed'] = pub.export_key(format='PEM', compress=True).encode()
        f[subj, 'openssh'] = pub.export_key(format='OpenSSH').encode()
        f[subj, 'point'] = pub.export_key(format='SEC1')
        f[subj, 'point-compressed'] = pub.export_key(format='SEC1', compress=True)
    pub = subject_key(pool, 'rsa')
    p1 = DerSequence([pub.n, pub.e]).encode()
    f['rsa', 'spki'] = pub.export_key(format='DER')
    f['rsa', 'spki-noparams'] = DerSequence([DerSequence([DerObjectId('1.2.840.113549.1.1.1').encode()]).encode(),
                                             DerBitString(p1).encode()]).encode()
    f['rsa', 'pkcs1'] = p1
    nb, eb = pub.n.to_bytes((pub.n.bit_length() + 7) // 8, 'big'), pub.e.to_bytes((pub.e.bit_length() + 7) // 8, 'big')
    f['rsa', 'pkcs1-padded'] = _tl(0x30, _tl(2, (b'\x00\x00' if nb[0] & 0x80 else b'\x00') + nb) + _tl(2, (b'\x00' if eb[0] & 0x80 else b'') + eb))
    f['rsa', 'pem'] = pub.export_key(format='PEM')
    f['rsa', 'pem-pkcs1'] = _pem(b'RSA PUBLIC KEY', p1)
    f['rsa', 'openssh'] = pub.export_key(format='OpenSSH')
    pub = subject_key(pool, 'ed25519')
    f['ed25519', 'spki'] = pub.export_key(format='DER')
    f['ed25519', 'pem'] = pub.export_key(format='PEM').encode()
    f['ed25519', 'openssh'] = pub.export_key(format='OpenSSH').encode()
    f['ed25519', 'raw'] = pub.export_key(format='raw')
    f = {k: (v.encode() if isinstance(v, str) else bytes(v)) for k, v in f.items()}
    for subj in SUBJ:
        if f[subj, 'spki'] != pool.pub_der(subj) or sorted(e for s_, e in f if s_ == subj) != sorted(ENCS[subj]):
            raise MachineryError('key forms of %s are not what the pool / the encoding table say' % subj)
    if len(set(f.values())) != len(f):
        raise MachineryError('two encodings of the key forms coincide')
    pool.c16_forms = f
    return f


def key_class(subj, data, pool):
    """What a relying party obtains from key bits, importing them the way the library's checkers and validators do
    (RSA.import_key for an RSA key, ECC.import_key otherwise): 'subject' | 'other-key' | 'unreadable'."""
    from Cryptodome.PublicKey import ECC, RSA
    want = subject_key(pool, subj)
    try:
        k = (RSA if subj == 'rsa' else ECC).import_key(bytes(data))
    except (ValueError, IndexError, TypeError):
        return 'unreadable'
    try:
        if subj == 'rsa':
            return 'subject' if (k.n, k.e) == (want.n, want.e) and not k.has_private() else 'other-key'
        return 'subject' if k == want and not k.has_private() else 'other-key'
    except Exception:  # noqa
        return 'other-key'


class Given:
    """The key bits as the caller hands them over: snapshot (the bytes at the time of the call), the buffer object,
    and what the caller does to a writable buffer afterwards."""

    def __init__(self, q, rng, pool):
        enc, kind = q.get('enc', 'spki'), q.get('pubbuf', 'bytes')
        if enc == 'opaque':
            for _ in range(50):
                data = rng.randbytes(q['publen'])
                if key_class(q['subj'], data, pool) == 'unreadable':
                    break
            else:
                raise MachineryError('random bytes keep being a key')
        else:
            data = key_forms(pool).get((q['subj'], enc))
            if data is None:
                raise MachineryError('no encoding %r of a %s key' % (enc, q['subj']))
        if len(data) != q['publen']:
            raise MachineryError('request says the %s/%s key bits are %d bytes long, they are %d (NdnPacketsCertCfg!EncLen)'
                                 % (q['subj'], enc, q['publen'], len(data)))
        self.snapshot = data
        self.base = None
        if kind == 'bytes':
            self.buf = data
        elif kind == 'bytearray':
            self.buf = self.base = bytearray(data)
        elif kind == 'memoryview':
            self.buf = memoryview(bytes(bytearray(data)))
        elif kind == 'memoryview-slice':
            lo = rng.randint(1, 9)
            self.base = bytearray(rng.randbytes(lo) + data + rng.randbytes(rng.randint(0, 9)))
            self.buf = memoryview(self.base)[lo:lo + len(data)]
        else:
            raise MachineryError('unknown buffer kind %r' % kind)
        self.scrambled = None

    def scramble(self):
        """the caller reuses its buffer"""
        if self.base is not None:
            for i in range(len(self.base)):
                self.base[i] ^= 0x5a
            self.scrambled = bytes(self.buf)


CHECKERS = {'ecdsa': 'EccChecker', 'rsa': 'RsaChecker', 'ed25519': 'Ed25519Checker'}
NO_CONTENT = {'is': 'absent', 'key': 'unreadable', 'carried': False}


def content_obs(q, b, lay, pool):
    """NdnPacketsCert!ContentExpect as observed: is the Content the bytes given; what a relying party imports from it;
    does a checker built from (key locator, Content) accept the certificate.  + class of a departure (for signatures)."""
    cs = find(lay, 21, 1) if lay else []
    if len(cs) != 1:
        return {'is': 'absent', 'key': 'unreadable', 'carried': False}, 'no-content'
    content = bytes(val(b.wire, cs[0]))
    obs = {'is': 'given' if content == b.pub else 'other', 'key': key_class(q['subj'], content, pool), 'carried': False}
    cname = CHECKERS.get(q['sg']['kind'])
    if cname and b.kl is not None:
        import ndn.security as sec
        try:
            name, _m, _c, sp = parse_data(b.wire)
            obs['carried'] = bool(pk.run_sync(getattr(sec, cname).from_key(b.kl, content)(name, sp)))
        except MachineryError:
            raise
        except Exception:  # noqa: a checker that raises has not accepted
            pass
    how = 'as-given'
    if obs['is'] != 'given':
        how = 'follows-the-callers-buffer' if b.given.scrambled is not None and content == b.given.scrambled and content != b.pub \
            else {'subject': 'same-key-re-encoded', 'other-key': 'another-key'}.get(obs['key'], 'other-bytes')
    return obs, how


# ---------------------------------------------------------------- executor

class Clock:
    """Patches security_v2's view of the wall clock (datetime.now, timestamp) and puts the PROCESS into the host
    time zone of the request (TZ + tzset, restored afterwards). Like the real one, FixedDT.now() without a zone
    returns host-local wall time as a naive datetime; now(UTC) returns the aware instant."""

    def __init__(self, clock, host='UTC'):
        self.inst = T0 + timedelta(days=clock['d'], seconds=clock['s'], milliseconds=clock['ms'])
        self.ms = (clock['d'] * 86400 + clock['s']) * 1000 + clock['ms']
        self.host = host

    def __enter__(self):
        inst = self.inst
        self.saved_tz = os.environ.get('TZ')
        os.environ['TZ'] = self.host
        time.tzset()

        class FixedDT(datetime):
            @classmethod
            def now(cls, tz=None):
                aware = inst.replace(tzinfo=UTC)
                if tz is not None:
                    return aware.astimezone(tz)
                return aware.astimezone().replace(tzinfo=None)      # host-local wall time, naive
        self.saved = (sv2.datetime, sv2.timestamp)
        sv2.datetime = FixedDT
        sv2.timestamp = lambda: self.ms
        return self

    def __exit__(self, *a):
        sv2.datetime, sv2.timestamp = self.saved
        if self.saved_tz is None:
            os.environ.pop('TZ', None)
        else:
            os.environ['TZ'] = self.saved_tz
        time.tzset()


def in_zone(inst, tz):
    base = T0 + timedelta(days=inst['d'], seconds=inst['s'])
    if tz == NAIVE:
        return base
    return base.replace(tzinfo=UTC).astimezone(timezone(timedelta(minutes=tz)))


def norm_q(q):
    """requests written before the zone fields existed (replay files, hand-built requests): the fields every judged request has"""
    try:
        end = inst_json(inst_dt(q['start']) + timedelta(seconds=q['dur']))
    except OverflowError:
        end = dict(q['start'])
    for k, v in (('zone', ''), ('zone2', ''), ('sw', dict(q['start'])), ('sf', 0), ('ew', end), ('ef', 0)):
        q.setdefault(k, v)
    return q


def _in_named_zone(zone, inst, w, fold, what):
    """the aware datetime for `inst` on the clock of `zone`.  With a reading given (TLC's, or the driver's own record of what it
    wrote) the datetime is CONSTRUCTED from reading + fold; that it denotes the instant is the spec's claim (ArgsDenote),
    re-checked here with zoneinfo: a disagreement of the two oracles is a machinery failure."""
    if w is None:
        return inst.replace(tzinfo=UTC).astimezone(ZoneInfo(zone))
    dt = wall_dt(zone, w, fold)
    if to_utc(dt) != inst:
        raise MachineryError('CertTimeZone and zoneinfo disagree: %s reading %s fold %d in %s is %s UTC, the request says %s'
                             % (what, inst_dt(w).isoformat(), fold, zone, to_utc(dt).isoformat(), inst.isoformat()))
    return dt


def start_datetime(q):
    if q.get('zone'):
        return _in_named_zone(q['zone'], inst_dt(q['start']), q.get('sw'), q.get('sf', 0), 'start')
    return in_zone(q['start'], q['tz'])


def end_datetime(q):
    """new_cert: the end instant (start + lifetime) expressed in its own zone (zone2, else the fixed offset tz2)"""
    t = T0 + timedelta(days=q['start']['d'], seconds=q['start']['s'] + q['dur'])
    if q.get('zone2'):
        return _in_named_zone(q['zone2'], t, q.get('ew'), q.get('ef', 0), 'end')
    return in_zone({'d': (t - T0).days, 's': (t - T0).seconds}, q['tz2'])


def reading_class(dt):
    """how an aware datetime of a named zone relates to the changes of its clock"""
    a, b = to_utc(dt.replace(fold=0)), to_utc(dt.replace(fold=1))
    if a == b:
        return 'dst-zone'
    shown = a.replace(tzinfo=UTC).astimezone(dt.tzinfo).replace(tzinfo=None) == dt.replace(tzinfo=None)
    return ('%s-pass-of-a-repeated-reading' % ('second' if dt.fold else 'first')) if shown else 'reading-inside-the-gap-fold-%d' % dt.fold


def _zc(tz):
    return 'naive' if tz == NAIVE else 'utc' if tz == 0 else 'aware-non-utc'


def zone_class(q, which=None):
    """class of the request's time arguments for signatures; which = 'nb' / 'na': only the datetime that instant came from"""
    if q['fn'] in ('derive', 'new_cert') and (T0 + timedelta(days=q['start']['d'])).year < 1000:
        return 'year-below-1000'
    if q['fn'] in ('derive', 'new_cert') and (q.get('zone') or q.get('zone2')):
        try:
            cs, ce = (reading_class(start_datetime(q)) if q.get('zone') else ''), (reading_class(end_datetime(q)) if q.get('zone2') else '')
        except (MachineryError, OverflowError, ValueError):
            cs = ce = 'dst-zone'
        if (cs, ce) in (('dst-zone', ''), ('dst-zone', 'dst-zone')) or q['fn'] == 'derive' and cs == 'dst-zone':
            return 'dst-zone-start'
        cs, ce = cs or _zc(q['tz']), ce or ('computed' if q['fn'] == 'derive' else _zc(q['tz2']))
        if which == 'nb' or which == 'na' and q['fn'] == 'derive':
            return 'start-' + cs
        return 'end-' + ce if which == 'na' else 'start-%s-end-%s' % (cs, ce)
    if q.get('host', 'UTC') != 'UTC':
        return ('clock' if q['fn'] in ('self_sign', 'sign_req') else _zc(q['tz'])) + '/non-utc-host'
    if q['fn'] == 'derive':
        return _zc(q['tz'])
    if q['fn'] == 'new_cert':
        return '%s-start-%s-end' % (_zc(q['tz']), _zc(q['tz2']))
    return 'clock'


def key_name_bytes(q, rng):
    """Concrete key name: q['lit'][i] fixes a component's text (KEY, self, cert-request, ...), the others get
    random bytes of the modelled length."""
    cs = []
    for c, w in zip(q['keyname'], q['lit']):
        if w:
            if c['t'] != 8 or c['l'] != len(w):
                raise MachineryError('literal %r does not fit component %r' % (w, c))
            cs.append(b'\x08' + st.write_var(len(w)) + w.encode())
        else:
            cs.append(pk.comp_bytes(c, rng))
    return cs


UNRESERVED = frozenset(b'ABCDEFGHIJKLMNOPQRSTUVWXYZabcdefghijklmnopqrstuvwxyz0123456789-._~')
SHORTHAND = {54: 'v', 50: 'seg', 52: 'off', 56: 't', 58: 'seq'}


def uri_escape(value, rng, extra=0.0):
    """NDN URI spelling of value bytes: unreserved characters literally (or, with probability `extra`, escaped as
    well - also legal), everything else as %XX in either hex case."""
    out = []
    for c in value:
        if c in UNRESERVED and rng.random() >= extra:
            out.append(chr(c))
        else:
            out.append(('%%%02X' if rng.random() < 0.7 else '%%%02x') % c)
    return ''.join(out)


def issuer_arg(q, rng):
    """The issuer id as the caller writes it. The component is chosen first and the text is written from it by
    the NDN URI rules, so the expectation does not come from Component.from_str.
    -> (argument for derive_cert, expected component bytes)"""
    c, form = q['issuer'], q['idform']
    t, n = c['t'], c['l']
    if form == 'plain':
        value = bytes(rng.choice(b'abcdefghijklmnopqrstuvwxyzABCDEFGHIJKLMNOPQRSTUVWXYZ0123456789') for _ in range(n))
        if n >= 3 and rng.random() < 0.5:
            value = value[:1] + bytes([rng.choice(b'-._~')]) + value[2:]
    elif form == 'short':
        value = st.uint_bytes(pk.uint_of_width(n, rng))
    else:
        value = rng.randbytes(n)
        if form == 'escaped' and all(b in UNRESERVED for b in value):
            value = bytes([rng.choice(b' /%=:\x00\xc3')]) + value[1:]
        if value and all(b == 0x2e for b in value):
            value = b'x' + value[1:]       # names made of periods only have their own URI rule (C09's business)
    comp = st.write_var(t) + st.write_var(n) + value
    if form == 'comp':
        return comp, comp
    if form == 'plain':
        return value.decode(), comp
    if form == 'short':
        return '%s=%d' % (SHORTHAND[t], int.from_bytes(value, 'big')), comp
    if form == 'typed':
        return '%d=%s' % (t, uri_escape(value, rng, 0.2)), comp
    if form == 'escaped':
        return ('' if t == 8 else '%d=' % t) + uri_escape(value, rng, 0.4), comp
    raise MachineryError('unknown issuer-id form %r' % form)


def issue(q, rng, pool, target=True, live=None, keyname=None, times=None, mutable_args=False):
    """Run the real function. Returns a Built-like object.
    live = (signer object, concrete locator name): issue with this long-lived signer instead of a fresh one.
    times = (start datetime, end datetime): hand over these very datetimes (issuing histories) instead of building them from q."""
    b = pk.Built()
    b.q = norm_q(q)
    b.given = Given(q, rng, pool)
    b.pub = b.given.snapshot
    b.keyname = keyname or key_name_bytes(q, rng)
    if live is not None:
        b.kl = live[1]
        b.rec = pk.Recorder(live[0])
    else:
        b.kl = pk.name_bytes(q['sg']['kl'], rng) if q['sg']['haskl'] else None
        b.rec = pk.make_signer(q['sg'], rng, pool, b.kl, target)
    b.exc = b.wire = b.cert_name = None
    # the objects handed in: with mutable_args the key name is a list of bytearrays and a component issuer id a bytearray - the
    # caller's own objects, which it may overwrite after the call (scribble_over)
    key_arg = [bytearray(c) for c in b.keyname] if mutable_args else b.keyname
    b.handed = list(key_arg) if mutable_args else []
    b.issuer_bytes = {'self_sign': b'\x08\x04self', 'sign_req': b'\x08\x0ccert-request'}.get(q['fn'])
    if q['fn'] in ('new_cert', 'derive'):
        try:
            t_start, t_end = times or (start_datetime(q), (end_datetime(q) if q['fn'] == 'new_cert' else None))
        except OverflowError as e:
            raise MachineryError('request with a start/end that is not a datetime in its zone: %r' % e)
    with Clock(q['clock'], q.get('host', 'UTC')) as ck:
        b.ms = ck.ms
        try:
            if q['fn'] == 'self_sign':
                b.cert_name, w = sv2.self_sign(key_arg, b.given.buf, b.rec)
            elif q['fn'] == 'sign_req':
                b.cert_name, w = sv2.sign_req(key_arg, b.given.buf, b.rec)
            elif q['fn'] == 'new_cert':
                b.issuer_arg, b.issuer_bytes = issuer_arg(dict(q, idform='comp'), rng)
                if mutable_args:
                    b.issuer_arg = bytearray(b.issuer_arg)
                    b.handed.append(b.issuer_arg)
                b.cert_name, w = sv2.new_cert(key_arg, b.issuer_arg, b.given.buf, b.rec, t_start, t_end)
            else:
                b.issuer_arg, b.issuer_bytes = issuer_arg(q, rng)
                if mutable_args and not isinstance(b.issuer_arg, str):
                    b.issuer_arg = bytearray(b.issuer_arg)
                    b.handed.append(b.issuer_arg)
                b.cert_name, w = sv2.derive_cert(key_arg, b.issuer_arg, b.given.buf, b.rec, t_start, q['dur'])
            b.raw = w                 # the caller's buffer, kept alive (re-read later: must not change)
            b.given.scramble()        # the caller's key buffer is the caller's: reused right after the call
            b.wire = bytes(w)
        except MachineryError:
            raise
        except Exception as e:  # noqa
            b.exc = e
    return b


def find(lay, t, depth=None):
    return [e for e in lay if e[1] == t and (depth is None or e[0] == depth)]


def val(wire, e):
    return wire[e[2] + e[3]:e[2] + e[3] + e[4]]


def field_checks(q, b, lay):
    """Everything the statement names, checked on the wire through the strict projection and through
    parse_certificate / parse_data. Returns list of (clause, description)."""
    bad = []
    wire = b.wire
    nm = find(lay, 7, 1)[0]
    comps = [wire[c[1]:c[3]] for c in st.read_elements(wire, nm[2] + nm[3], nm[2] + nm[3] + nm[4])]
    ver = b'\x36' + st.write_var(len(st.uint_bytes(b.ms))) + st.uint_bytes(b.ms)
    want_name = b.keyname + [b.issuer_bytes, ver]
    b.obs_name = comps
    if comps[:-2] != b.keyname:
        bad.append(('name/key-name', 'certificate name does not start with the key name'))
    elif comps[-2:-1] != [b.issuer_bytes]:
        bad.append(('name/issuer-id/%s' % (q.get('idform', 'comp') if q['fn'] == 'derive' else 'fixed' if q['fn'] != 'new_cert' else 'comp'),
                    'issuer id given as %r: the certificate has component %s, requested %s' % (
                        getattr(b, 'issuer_arg', None), comps[-2].hex(), b.issuer_bytes.hex())))
    elif comps[-1] != ver:
        bad.append(('name/version', 'version component %s, expected %s' % (comps[-1].hex(), ver.hex())))
    if [bytes(c) for c in b.cert_name] != comps:
        bad.append(('name/returned', 'returned certificate name differs from the name in the wire'))
    if val(wire, find(lay, 24, 2)[0]) != b'\x02':
        bad.append(('content-type', 'ContentType is not KEY'))
    if q['sg']['haskl']:
        kls = find(lay, 28, 2)
        if not kls or val(wire, kls[0]) != pk.st.write_tlv([(7, b''.join(b.kl))]):
            bad.append(('key-locator', 'KeyLocator does not name the signer\'s key'))
    # parse side ("parsing the certificate returns those same fields": the fields of the wire; whether the Content on the
    # wire is the key given is check_issued's clause)
    on_wire = bytes(val(wire, find(lay, 21, 1)[0]))
    try:
        cert = sv2.parse_certificate(wire)
        si = cert.signature_info
        got = {
            'name': [bytes(c) for c in cert.name] == comps,       # (the name of the wire; whether THAT is the requested one: above)
            'content': bytes(cert.content if cert.content is not None else b'') == on_wire and (cert.content is not None or not on_wire),
            'content-type': cert.meta_info is not None and cert.meta_info.content_type == 2,
            'signature-type': si is not None and si.signature_type == SIGTYPE[q['sg']['kind']] or not q['sg']['st'],
            'key-locator': (si.key_locator is not None and [bytes(c) for c in si.key_locator.name] == b.kl)
            if q['sg']['haskl'] else (si.key_locator is None),
            'not-before': si.validity_period is not None and bytes(si.validity_period.not_before) == val(wire, find(lay, 254)[0]),
            'not-after': si.validity_period is not None and bytes(si.validity_period.not_after) == val(wire, find(lay, 255)[0]),
        }
        for k, ok in got.items():
            if not ok:
                bad.append(('parse_certificate/' + k, 'parse_certificate does not return the certificate\'s ' + k))
    except Exception as e:  # noqa
        bad.append(('parse_certificate/exception-' + type(e).__name__, 'parse_certificate raised %r' % e))
    try:
        name, meta, content, sp = parse_data(wire)
        if [bytes(c) for c in name] != comps:
            bad.append(('parse_data/name', 'parse_data returns another name'))
        if bytes(content if content is not None else b'') != on_wire:
            bad.append(('parse_data/content', 'parse_data returns another content'))
        if meta.content_type != 2:
            bad.append(('parse_data/content-type', 'parse_data returns content type %r' % meta.content_type))
        if q['sg']['haskl'] and (sp.signature_info.key_locator is None
                                 or [bytes(c) for c in sp.signature_info.key_locator.name] != b.kl):
            bad.append(('parse_data/key-locator', 'parse_data returns another key locator'))
        b.sp = sp
        b.pname = name
    except Exception as e:  # noqa
        bad.append(('parse_data/exception-' + type(e).__name__, 'parse_data raised %r' % e))
        b.sp = None
    return bad


def signature_checks(q, b, signed_ivs, sv, pool):
    bad = []
    wire = b.wire
    want = pk.slices(wire, signed_ivs)
    sig = wire[sv['lo']:sv['hi']]
    if b.rec.covered != want:
        bad.append(('signature/signer-input', 'bytes handed to the signer are not Name..SignatureInfo of the certificate'))
    if b.rec.sig != sig:
        bad.append(('signature/value-position', 'the signature written by the signer is not the SignatureValue of the wire'))
    cfg = {'kind': 'data', 'sg': q['sg']}
    ver = pk.Verifier(cfg, b, pool)
    if ver.has:
        if not ver.independent(want, sig):
            bad.append(('signature/verify-independent', 'PyCryptodome under the issuing key rejects the signature over the signed range'))
        if b.sp is not None:
            if b''.join(bytes(c) for c in b.sp.signature_covered_part) != want:
                bad.append(('signature/covered-part', 'parse_data reports another covered range'))
            for n, ok in ver.lib(b.pname, b.sp):
                if not ok:
                    bad.append(('signature/rejected-by-' + n, '%s rejects the certificate under the issuing key' % n))
    return bad


def check_issued(ctx, q, exp, b, pool, stage, label=None, rep=None, scribbled=()):
    """exp: TLC's expectation (stage B) or None (stage C). Returns the observed layout or None.
    label: replaces the function name in violation signatures (signer-reuse histories).
    scribbled: byte strings the caller wrote over earlier results / arguments of the history: a name component that is one
    of them gets the signature of that situation."""
    fn = label or FN_NAME[q['fn']]
    rep = rep or {'kind': 'req', 'stage': stage, 'q': q}
    if b.exc is not None:
        c = sv2_date(q['clock'])
        if q['fn'] == 'self_sign' and isinstance(b.exc, ValueError) and (c.month, c.day) == (2, 29):
            ctx.violation('C16/self_sign/clock-29-february/raises-ValueError',
                          'self_sign raised %r with the clock at %s' % (b.exc, c.isoformat()), rep)
        else:
            ctx.violation('C16/%s/exception/%s' % (fn, type(b.exc).__name__), '%s raised %r' % (fn, b.exc), rep)
        return None
    try:
        lay = pk.layout(b.wire)
    except st.TlvError as e:
        ctx.violation('C16/%s/layout/malformed-%s' % (fn, e.reason), 'certificate is not one well-formed TLV element: %s' % e, rep)
        return None
    # the Content against the bytes given (the comparison is the projection; the expectation is NdnPacketsCert!ContentExpect:
    # "is" does not depend on the request, "key" and "carried" are compared with TLC's value in B and judged by TLC in C)
    b.content, how = content_obs(q, b, lay, pool)
    enc = q.get('enc', 'spki') if label is None else 'any-encoding'
    if b.content['is'] == 'other':
        cs = find(lay, 21, 1)[0]
        ctx.violation('C16/%s/content/%s/%s' % (fn, enc, how),
                      'the Content of the certificate is not the public key given (%s key as %s, %d bytes, in a %s): it holds %d bytes %s... '
                      '(%s); given %s...' % (q['subj'], q.get('enc', 'spki'), len(b.pub), q.get('pubbuf', 'bytes'), cs[4],
                                             bytes(val(b.wire, cs)[:24]).hex(), how, b.pub[:24].hex()), rep)
    elif exp is not None and b.content['is'] == 'given':
        if key_class(q['subj'], b.pub, pool) != exp['content']['key']:
            raise MachineryError('NdnPacketsCert!Unreadable disagrees with PyCryptodome on the %s encoding of a %s key' % (q.get('enc'), q['subj']))
        if exp['content']['carried'] and not b.content['carried']:
            ctx.violation('C16/%s/content/%s/certificate-does-not-verify-under-the-key-it-carries' % (fn, enc),
                          'a %s built from the key locator and the Content rejects the certificate issued with that very key'
                          % CHECKERS.get(q['sg']['kind']), rep)
    if exp is not None:
        want = pk.exp_layout(exp)
        if lay != want:
            ctx.violation('C16/%s/layout/differs-%s%s' % (fn, pk.first_diff(want, lay), '/year-below-1000' if zone_class(q) == 'year-below-1000' else ''),
                          'certificate layout differs from the reference: expected %s observed %s' % (want, lay), rep)
            return lay
    shape_ok = len(find(lay, 7, 1)) == 1 and len(find(lay, 21, 1)) == 1 and len(find(lay, 24, 2)) == 1 and \
        len(find(lay, 254)) == 1 and len(find(lay, 255)) == 1 and lay[-1][1] == 23
    if not shape_ok:
        if exp is None:
            return lay          # TLC will reject the layout
        raise MachineryError('reference layout lacks an expected element')
    for clause, what in field_checks(q, b, lay):
        if clause.startswith('name/') and any(c in scribbled for c in getattr(b, 'obs_name', [])):
            ctx.violation('C16/%s/history/name-after-scribbled-result' % FN_NAME[q['fn']],
                          '%s after the caller overwrote, in place, the objects of an EARLIER result (returned name, buffer) and of its arguments: '
                          'the new certificate is named %s - it carries the bytes the caller wrote there; expected %s. %s'
                          % (FN_NAME[q['fn']], [c.hex() for c in b.obs_name], [c.hex() for c in b.keyname + [b.issuer_bytes]] + ['<version>'], what), rep)
        else:
            ctx.violation('C16/%s/%s' % (fn, clause), what, rep)
    if exp is not None:
        nb, na = list(val(b.wire, find(lay, 254)[0])), list(val(b.wire, find(lay, 255)[0]))
        if nb != exp['nb']:
            ctx.violation('C16/%s/validity/not-before/%s' % (fn, zone_class(q, 'nb')),
                          'NotBefore is %r, requested %r' % (bytes(nb), bytes(exp['nb'])), rep)
        if na not in exp['na']:
            ctx.violation('C16/%s/validity/not-after/%s' % (fn, zone_class(q, 'na')),
                          'NotAfter is %r, requested %s' % (bytes(na), [bytes(x) for x in exp['na']]), rep)
        signed_ivs, sv = exp['signed'], exp['sv'][0]
    else:
        sv_e = lay[-1]
        signed_ivs = [{'lo': lay[0][3], 'hi': sv_e[2]}]
        sv = {'lo': sv_e[2] + sv_e[3], 'hi': len(b.wire)}
    for clause, what in signature_checks(q, b, signed_ivs, sv, pool):
        ctx.violation('C16/%s/%s' % (fn, clause), what, rep)
    return lay


def sv2_date(clock):
    return T0 + timedelta(days=clock['d'], seconds=clock['s'])


# ---------------------------------------------------------------- random requests (stage C)

def days(y, m, d):
    return (datetime(y, m, d) - T0).days


def rand_instant(rng, max_year):
    x = rng.random()
    if x < 0.25:
        y = rng.choice([1970, 1999, 2000, 2023, 2024, 2038, 2096, 2099, 2100, 2399, 2400, max_year])
        m, d = rng.choice([(1, 1), (2, 28), (2, 29), (3, 1), (12, 31)])
        if (m, d) == (2, 29) and not (y % 4 == 0 and (y % 100 != 0 or y % 400 == 0)):
            d = 28
        return {'d': days(y, m, d), 's': rng.choice([0, 1, 43200, 86398, 86399])}
    return {'d': rng.randint(0, days(max_year, 12, 31)), 's': rng.randrange(86400)}


def rand_key_form(rng, pool, subj):
    """-> (encoding, buffer kind, length) of the key bits the caller hands over"""
    x = rng.random()
    enc = 'spki' if x < 0.3 else 'opaque' if x < 0.42 else rng.choice(ENCS[subj])
    n = rng.choice(OPAQUE_LENS + [rng.randrange(600)]) if enc == 'opaque' else len(key_forms(pool)[subj, enc])
    return enc, rng.choice(BUF_KINDS), n


DST_ZONES = ['America/New_York', 'Europe/Berlin', 'Australia/Sydney', 'America/Los_Angeles', 'Europe/London', 'Europe/Lisbon', 'Africa/Casablanca']


def rand_req(rng, pool):
    fn = rng.choice(['derive', 'derive', 'derive', 'new_cert', 'new_cert', 'self_sign', 'sign_req'])
    subj = rng.choice(SUBJ)
    ident = pk.rand_name(rng, 5)[:5] or [{'t': 8, 'l': 2}]
    lit = [''] * len(ident)
    if rng.random() < 0.3:      # identities may contain reserved-looking components at any depth
        for _ in range(rng.randint(1, 2)):
            w = rng.choice(['KEY', 'KEY', 'KEY', 'self', 'cert-request'])
            i = rng.randrange(len(ident))
            ident[i], lit[i] = {'t': 8, 'l': len(w)}, w
    keyname = ident + [{'t': 8, 'l': 3}, {'t': 8, 'l': 8}]
    lit = lit + ['KEY', '']
    sg = dict(pk.NO_SG)
    k = rng.choice(['ecdsa', 'ecdsa', 'rsa', 'ed25519', 'hmac', 'digest', 'syn', 'syn'])
    if fn in ('self_sign', 'sign_req'):
        k = {'ec256': 'ecdsa', 'ec384': 'ecdsa', 'rsa': 'rsa', 'ed25519': 'ed25519'}[subj]
    sg.update(kind=k, st=True)
    if k == 'ecdsa':
        sg['r'] = {'ec256': 72, 'ec384': 104}[subj] if fn in ('self_sign', 'sign_req') else rng.choice([72, 104, 140])
        sg['a'] = -1
    elif k == 'syn':
        sg['r'] = rng.choice([1, 8, 33, 72, 104, 140, 200, 252])
        sg['a'] = rng.randint(0, sg['r'])
    else:
        sg['r'] = sg['a'] = {'rsa': 256, 'ed25519': 64, 'hmac': 32, 'digest': 32}[k]
    if k != 'digest':
        sg['haskl'] = True
        sg['kl'] = pk.rand_name(rng, 4) + [{'t': 8, 'l': 3}, {'t': 8, 'l': 8}]
    clock = rand_instant(rng, 9979)
    clock['ms'] = rng.randrange(1000)
    if rng.random() < 0.1:
        clock = rng.choice([{'d': 0, 's': 0, 'ms': rng.randrange(1000)}, {'d': 0, 's': rng.randrange(70), 'ms': rng.randrange(1000)},
                            {'d': 49, 's': 61367, 'ms': rng.randrange(1000)}, {'d': rng.randrange(50), 's': rng.randrange(86400), 'ms': 0}])
    start = rand_instant(rng, 9970)
    dur = rng.choice([0, 1, 59, 60, 3600, 86399, 86400, 86401, 2 * 86400, 365 * 86400, 366 * 86400, 7305 * 86400,
                      rng.randrange(7305 * 86400)])
    tz = rng.choice([NAIVE, NAIVE, 0, 0, 60, 330, -480, 345, 840, -720, rng.randrange(-720, 841)])
    zones = [NAIVE, NAIVE, 0, 0, 60, 330, -480, 345, 840, -720, rng.randrange(-720, 841)]
    tz2 = rng.choice(zones) if fn == 'new_cert' else tz
    issuer = rng.choice([{'t': 8, 'l': rng.randint(1, 12)}, {'t': 8, 'l': 0}, pk.rand_comp(rng, False),
                         {'t': rng.choice(sorted(SHORTHAND)), 'l': rng.choice([1, 2, 4, 8])}])
    issuer['l'] = min(issuer['l'], 40)
    forms = ['comp', 'typed'] + (['escaped'] if issuer['l'] > 0 else []) + (['plain'] * 2 if issuer['t'] == 8 and issuer['l'] > 0 else []) \
        + (['short'] * 2 if issuer['t'] in SHORTHAND and issuer['l'] in (1, 2, 4, 8) else [])
    idform = rng.choice(forms) if fn == 'derive' else 'comp'
    zone = zone2 = ''
    near = None
    if fn in ('derive', 'new_cert') and rng.random() < 0.15:
        zone, tz = rng.choice(DST_ZONES), 0
        if rng.random() < 0.5:      # right before a change of the zone's clock
            start = {'d': days(*rng.choice([(2024, 3, 9), (2024, 3, 30), (2024, 10, 26), (2024, 11, 2), (2025, 4, 5), (2025, 10, 4)])),
                     's': rng.randrange(86400)}
    if fn in ('derive', 'new_cert') and rng.random() < 0.12:
        # the start is WRITTEN on the wall clock of a zone around a change of its clock - inside the repeated interval (either
        # pass), inside the gap (either fold), at the edges; the lifetime is the step, a multiple of it, or anything; new_cert's
        # end is written on the same clock (the other pass of the same reading when the lifetime is the step), another zone's, or a fixed one
        zone, tz = rng.choice(KNOWN_ZONES), 0
        near, (_at, before, after) = rand_near_change(rng, zone)
        start = inst_json(to_utc(near))
        step = abs(before - after).seconds
        dur = rng.choice([step, step, 2 * step, step - 1, step + 1, 86400] + ([dur] if near.year < 9970 else []))
        if fn == 'new_cert':
            zone2 = rng.choice([zone, zone, rng.choice(KNOWN_ZONES), ''])
    elif fn == 'new_cert' and rng.random() < 0.1:
        zone2 = rng.choice(DST_ZONES)
    if fn in ('derive', 'new_cert') and rng.random() < 0.04:
        start = {'d': days(rng.choice([1, 99, 999, 1000, 1582, 1900, 1969]), rng.choice([1, 12]), rng.choice([1, 28])), 's': rng.randrange(86400)}
        near = None
    host = rng.choice(HOSTS)
    enc, pubbuf, publen = rand_key_form(rng, pool, subj)
    q = {'fn': fn, 'subj': subj, 'keyname': keyname, 'lit': lit, 'publen': publen, 'issuer': issuer, 'idform': idform,
         'sg': sg, 'clock': clock, 'start': start, 'dur': dur, 'tz': tz, 'tz2': tz2 if not zone2 else 0, 'zone': zone, 'host': host,
         'enc': enc, 'pubbuf': pubbuf, 'zone2': zone2}
    try:        # the caller's datetimes must exist (0001-01-01T07:00 UTC has no wall-clock reading at UTC-8)
        # the reading + fold the caller writes (what the judge's ArgsDenote is evaluated on): the one chosen on the wall clock,
        # else the one zoneinfo gives for the instant
        a = near if near is not None else start_datetime(q)
        e = end_datetime(q)
        q.update(sw=inst_json(a) if zone else dict(start), sf=a.fold if zone else 0,
                 ew=inst_json(e) if zone2 else inst_json(inst_dt(start) + timedelta(seconds=dur)), ef=e.fold if zone2 else 0)
    except OverflowError:
        q['tz'] = q['tz2'] = NAIVE
        q['zone'] = q['zone2'] = ''
        q.pop('sw', None)
        norm_q(q)
    return q


def record(ctx, q, pool, exp=None):
    """Run the real function on q, harness-check it, return the record TLC judges (stage C: exp None;
    stage B: exp = TLC's expectation, signature length targeted)."""
    b = issue(q, ctx.rng, pool, target=exp is not None)
    if b.rec.actual is not None and q['sg']['kind'] == 'ecdsa':
        q['sg']['a'] = b.rec.actual
    if q['sg']['a'] < 0:
        q['sg']['a'] = q['sg']['r']
    lay = check_issued(ctx, q, exp, b, pool, 'C' if exp is None else 'B')
    rec = {'q': q, 'refused': b.exc is not None, 'lay': pk.lay_json(lay or []), 'nb': [], 'na': [], 'signed': [],
           'content': getattr(b, 'content', NO_CONTENT)}
    if lay and len(find(lay, 254)) == 1 and len(find(lay, 255)) == 1:
        rec['nb'] = list(val(b.wire, find(lay, 254)[0]))
        rec['na'] = list(val(b.wire, find(lay, 255)[0]))
        ba = bytearray(b.wire)
        try:
            sp = parse_data(ba)[3]
            ivs = []
            for p in sp.signature_covered_part:
                o = pk.mv_offset(ba, p)
                if o is None:       # the covered part is not a view of the buffer that was parsed: no range of this wire
                    ivs = None
                    break
                ivs.append((o, o + len(p)))
            rec['signed'] = pk.merge_ivs(ivs) if ivs is not None else []
        except MachineryError:
            raise
        except Exception:  # noqa: reported by field_checks already
            pass
    return rec


# ---------------------------------------------------------------- signer-reuse histories (NdnPacketsCertHist)

SIGNER_KINDS = ['ecdsa', 'rsa', 'ed25519', 'hmac', 'tpm-ecdsa', 'tpm-rsa']
HIST_FNS = ['self_sign', 'sign_req', 'derive', 'new_cert']
ALL_FNS = '{"self_sign", "sign_req", "derive", "new_cert"}'


def loc_shapes(rng, nloc, fixed):
    """Locator identifier -> name shape. Different shapes, so that a wrong locator also changes the layout."""
    if fixed:
        base = [[{'t': 8, 'l': 2}, {'t': 8, 'l': 3}, {'t': 8, 'l': 8}],                                   # the key name
                [{'t': 8, 'l': 2}, {'t': 8, 'l': 3}, {'t': 8, 'l': 8}, {'t': 8, 'l': 4}, {'t': 54, 'l': 8}],  # its certificate
                [{'t': 8, 'l': 5}, {'t': 8, 'l': 1}, {'t': 8, 'l': 3}, {'t': 8, 'l': 8}]]                   # another key
        return {i + 1: base[i] for i in range(nloc)}
    out = {}
    for i in range(1, nloc + 1):
        out[i] = [{'t': 8, 'l': i}] + pk.rand_name(rng, 3) + [{'t': 8, 'l': 3}, {'t': 8, 'l': 8}]
    return out


class LiveSigner:
    """One real signer object of the given class, kept for a whole history."""

    def __init__(self, kind, loc_name, pool, scratch):
        from ndn.security import Sha256WithEcdsaSigner, Sha256WithRsaSigner, HmacSha256Signer, Ed25519Signer
        self.kind = kind
        base = kind.split('-')[-1]
        self.model = {'ecdsa': ('ecdsa', 72), 'rsa': ('rsa', 256), 'ed25519': ('ed25519', 64), 'hmac': ('hmac', 32)}[base]
        if kind == 'ecdsa':
            self.obj = Sha256WithEcdsaSigner(loc_name, pool.ec[72][0])
        elif kind == 'rsa':
            self.obj = Sha256WithRsaSigner(loc_name, pool.rsa[0])
        elif kind == 'ed25519':
            self.obj = Ed25519Signer(loc_name, pool.ed[0])
        elif kind == 'hmac':
            self.obj = HmacSha256Signer(loc_name, pool.hmac)
        else:
            # signer handed out by a TPM back-end (what the keychain returns)
            from ndn.security.tpm import TpmFile
            from ndn.encoding import Name
            d = os.path.join(scratch, 'tpm')
            os.makedirs(d, exist_ok=True)
            tpm = TpmFile(d)
            kn = Name.from_str('/verif/KEY/' + base)
            tpm.save_key(kn, pool.ec[72][0] if base == 'ecdsa' else pool.rsa[0])
            self.obj = tpm.get_signer(kn, loc_name)

    def set_locator(self, name):
        self.obj.key_locator_name = name

    def sg(self, shape):
        kind, r = self.model
        return {'kind': kind, 'r': r, 'a': r if kind != 'ecdsa' else -1, 'st': True, 'haskl': True, 'kl': shape,
                'nonce': 0, 'time': 0, 'seq': 0}


def run_history(ctx, kind, init, steps, shapes, pool, stage, host=None):
    """Drive ONE real signer along steps = [('SetLocator', l) | ('SignData',) | ('Issue', fn)].
    After every issuance the whole certificate is checked against the locator configured at that moment.
    Returns (history record for NdnPacketsCertHistTrace, certificate records for NdnPacketsCertTrace)."""
    from ndn.encoding import make_data, MetaInfo
    names = {i: pk.name_bytes(sh, ctx.rng) for i, sh in shapes.items()}
    # the subject key: locator #1 is the name of this very key when it has the shape of a key name (the ordinary
    # path), every other locator differs from the key name (a CA signer pointing at its certificate, ...)
    keyshape = [{'t': 8, 'l': 3}, {'t': 8, 'l': 3}, {'t': 8, 'l': 8}]
    keyname = [pk.comp_bytes(keyshape[0], ctx.rng), b'\x08\x03KEY', pk.comp_bytes(keyshape[2], ctx.rng)]
    if [(c['t'], c['l']) for c in shapes[1]] == [(8, 2), (8, 3), (8, 8)] and ctx.rng.random() < 0.7:
        keyshape = shapes[1]
        keyname = names[1] = [names[1][0], b'\x08\x03KEY', names[1][2]]
    live = LiveSigner(kind, names[init], pool, tlc.BUILD)
    cur = init
    host = ctx.rng.choice(HOSTS) if host is None else host

    def configured():
        """identifier of the locator the signer object is configured with right now (0 = none of ours)"""
        try:
            now = [bytes(c) for c in Name_normalize(live.obj.key_locator_name)]
        except Exception:  # noqa
            return 0
        return next((i for i, nm in names.items() if nm == now), 0)
    ev, certs, held = [], [], []
    owned = []              # per issuance: the objects that now belong to the caller (returned name, returned buffer, arguments)
    scribbles = set()       # what stands in those objects after the caller overwrote them
    hist_rep = {'kind': 'history', 'signer': kind, 'init': init, 'steps': [list(x) for x in steps],
                'shapes': {str(k): v for k, v in shapes.items()}, 'host': host}
    for stp in steps:
        if stp[0] == 'Scribble':
            i = stp[1]
            if not 0 < i <= len(owned):
                raise MachineryError('history scribbles over result #%d of %d' % (i, len(owned)))
            if owned[i - 1] is not None:
                scribbles |= scribble_over(*owned[i - 1])
                owned[i - 1] = None
            held[i - 1] = None          # its holder edited it: no longer expected to be what it was
            ev.append({'a': 'Scribble', 'i': i, 'after': configured()})
        elif stp[0] == 'SetLocator':
            cur = stp[1]
            live.set_locator(names[cur])
            ev.append({'a': 'SetLocator', 'l': cur, 'after': configured()})
        elif stp[0] == 'SignData':
            make_data([b'\x08\x01d'], MetaInfo(), b'x', signer=live.obj)
            ev.append({'a': 'SignData', 'after': configured()})
        else:
            fn = stp[1]
            enc, pubbuf, publen = rand_key_form(ctx.rng, pool, 'ec256')
            q = {'fn': fn, 'subj': 'ec256', 'keyname': keyshape, 'lit': ['', 'KEY', ''], 'enc': enc, 'pubbuf': pubbuf,
                 'publen': publen, 'issuer': {'t': 8, 'l': 3}, 'idform': 'plain', 'tz2': NAIVE, 'zone': '', 'host': host, 'sg': live.sg(shapes[cur]),
                 'clock': {'d': 20000 + len(ev), 's': 3600, 'ms': 5}, 'start': {'d': 19000, 's': 0}, 'dur': 86400, 'tz': NAIVE}
            before = configured()
            b = issue(q, ctx.rng, pool, target=False, live=(live.obj, names[cur]), keyname=keyname, mutable_args=True)
            if b.rec.actual is not None and q['sg']['kind'] == 'ecdsa':
                q['sg']['a'] = b.rec.actual
            if q['sg']['a'] < 0:
                q['sg']['a'] = q['sg']['r']
            lay = check_issued(ctx, q, None, b, pool, stage, label='%s@reused-%s-signer' % (FN_NAME[fn], kind), rep=hist_rep,
                               scribbled=scribbles)
            owned.append(None if b.exc is not None else (b.cert_name, b.raw, b.handed))
            seen = 0
            iss = 'other'
            if lay and getattr(b, 'obs_name', None):
                iss = 'ref' if b.obs_name[-2] == b.issuer_bytes else 'scribbled' if b.obs_name[-2] in scribbles else 'other'
            if lay:
                kls = find(lay, 28, 2)
                if kls:
                    body = val(b.wire, kls[0])
                    for i, nm in names.items():
                        if body == st.write_tlv([(7, b''.join(nm))]):
                            seen = i
            if b.exc is None:
                try:
                    pc = sv2.parse_certificate(b.raw)
                    held.append({'fn': fn, 'raw': b.raw, 'wire': b.wire, 'cert_name': b.cert_name,
                                 'cert_name_snap': [bytes(c) for c in b.cert_name], 'parsed': pc,
                                 'parsed_snap': ([bytes(c) for c in pc.name], bytes(pc.content),
                                                 [bytes(c) for c in pc.signature_info.key_locator.name] if pc.signature_info.key_locator else None)})
                except Exception:  # noqa: reported by field_checks
                    held.append(None)
            else:
                held.append(None)
            after = configured()
            if after != before:
                ctx.violation('C16/signer-reuse/%s/%s/issuing-reconfigured-the-signer' % (kind, fn),
                              '%s changed the key locator configured in the signer it was given (configured #%d, afterwards #%d)'
                              % (FN_NAME[fn], before, after), hist_rep)
            ev.append({'a': 'Issue', 'fn': fn, 'kl': seen, 'iss': iss, 'after': after})
            rec = {'q': q, 'refused': b.exc is not None, 'lay': pk.lay_json(lay or []), 'nb': [], 'na': [], 'signed': [],
                   'content': getattr(b, 'content', NO_CONTENT)}
            if lay and len(find(lay, 254)) == 1 and len(find(lay, 255)) == 1:
                rec['nb'] = list(val(b.wire, find(lay, 254)[0]))
                rec['na'] = list(val(b.wire, find(lay, 255)[0]))
                rec['signed'] = [{'lo': lay[0][3], 'hi': lay[-1][2]}]
            certs.append(rec)
        if held and (stp[0] != 'Issue' or len(held) > 1) and (stp[0] == 'Scribble' or ctx.rng.random() < 0.5):
            ev.append(recheck(ctx, kind, held, hist_rep, scribbles))
    if held:
        ev.append(recheck(ctx, kind, held, hist_rep, scribbles))
    contain_damage(ctx)
    return {'signer': kind, 'init': init, 'ev': ev, 'rep': hist_rep}, certs


LIB_WORDS = {k: bytes(v) for k, v in vars(sv2).items() if isinstance(v, bytearray)}


def contain_damage(ctx):
    """Containment, not a check: when scribbling over a RESULT has changed a mutable module-level object of the library (reported
    by the history that did it), put the object back, so that one finding does not repeat itself in every later certificate of the run."""
    for k, v in LIB_WORDS.items():
        cur = getattr(sv2, k, None)
        if isinstance(cur, bytearray) and bytes(cur) != v:
            cur[:] = v
            if k not in getattr(ctx, 'c16_contained', set()):
                ctx.c16_contained = getattr(ctx, 'c16_contained', set()) | {k}
                ctx.note('containment: security_v2.%s was changed through a returned certificate name; restored after each such history' % k)


def scribble_over(name, raw, handed):
    """The caller overwrites, in place, every mutable object it owns after an issuing call: each component of the returned name
    (the value bytes; the TL header is kept, so the name stays a name), the list itself, the returned buffer, and the mutable
    arguments it handed in.  -> the byte strings that now stand in those components."""
    out, seen = set(), set()
    for o in list(name) + list(handed):
        if id(o) in seen or isinstance(o, memoryview) and o.readonly or not isinstance(o, (bytearray, memoryview)):
            continue
        seen.add(id(o))     # (a returned name may contain the very objects handed in as the key name)
        try:
            els = st.read_elements(bytes(o), 0, len(o))
            h = els[0][2] if len(els) == 1 else 0
        except st.TlvError:
            h = 0
        for i in range(h, len(o)):
            o[i] ^= 0x5a
        out.add(bytes(o))
    if isinstance(name, list):
        name.append(bytearray(b'\x08\x05dirty'))
    if isinstance(raw, bytearray):
        for i in range(len(raw)):
            raw[i] ^= 0x5a
    return out


def recheck(ctx, kind, held, rep, scribbles=()):
    """The application kept the buffers, names and parse results it was handed: they must still be what they were
    (entries the caller scribbled over itself are None)."""
    same = []
    e = {'a': 'Recheck'}
    for h in held:
        ok = True
        if h is not None:
            pc = h['parsed']
            try:
                now = ([bytes(c) for c in pc.name], bytes(pc.content),
                       [bytes(c) for c in pc.signature_info.key_locator.name] if pc.signature_info.key_locator else None)
            except Exception:  # noqa
                now = None
            ok = bytes(h['raw']) == h['wire'] and [bytes(c) for c in h['cert_name']] == h['cert_name_snap'] and now == h['parsed_snap']
            if not ok:
                what = 'returned-buffer' if bytes(h['raw']) != h['wire'] else 'returned-name' if [bytes(c) for c in h['cert_name']] != h['cert_name_snap'] else 'parse-result'
                if what == 'returned-name' and any(bytes(c) in scribbles for c in h['cert_name']):
                    e.update(why='scribbled-result', cfn=h['fn'])
                    ctx.violation('C16/%s/history/held-name-after-scribbled-result' % FN_NAME[h['fn']],
                                  'the certificate name returned by an earlier %s changed when the caller overwrote, in place, ANOTHER result of the '
                                  'history: it now reads %s, it was %s' % (FN_NAME[h['fn']], [bytes(c).hex() for c in h['cert_name']],
                                                                           [c.hex() for c in h['cert_name_snap']]), rep)
                else:
                    ctx.violation('C16/signer-reuse/%s/%s/held-certificate-changed/%s' % (kind, h['fn'], what),
                                  'a certificate issued earlier (%s kept by the caller) changed after later operations' % what, rep)
        same.append(ok)
    e['same'] = same
    return e


def judge_histories(ctx, hists, certs, stage):
    recs = [{'init': h['init'], 'ev': h['ev']} for h in hists]
    rej = pk.judge(ctx, 'NdnPacketsCertHistTrace', 'NdnPacketsCertHistTrace.cfg', recs, 'c16-hist-' + stage)
    for i, at in rej:
        h = hists[i]
        k = int(str(at).strip() or 0)
        e = h['ev'][k - 1] if 0 < k <= len(h['ev']) else {'a': 'end'}
        if e['a'] == 'Issue' and e.get('iss') == 'scribbled':
            sig = 'C16/%s/history/name-after-scribbled-result' % FN_NAME[e['fn']]
        elif e['a'] == 'Recheck' and e.get('why') == 'scribbled-result':
            sig = 'C16/%s/history/held-name-after-scribbled-result' % FN_NAME[e['cfn']]
        else:
            sig = 'C16/signer-reuse/%s/%s/%s' % (h['signer'], e.get('fn', e['a']),
                                                 'held-certificate-changed' if e['a'] == 'Recheck' else
                                                 'issuer-id-not-the-reference' if e['a'] == 'Issue' and e.get('iss') != 'ref' else
                                                 'key-locator-not-the-configured-one')
        ctx.violation(sig, 'history on one %s signer rejected by NdnPacketsCertHistTrace at event %s %s: the certificate names locator #%s, '
                      'its issuer id is %s; events %s' % (h['signer'], k, e, e.get('kl'), e.get('iss'), h['ev']), dict(h['rep'], rejected_at=k))
    report_rejected(ctx, certs, pk.judge(ctx, 'NdnPacketsCertTrace', 'NdnPacketsCertTrace.cfg', certs, 'c16-histcerts-' + stage),
                    stage + '-history')
    return rej


def hist_stage_a(ctx):
    from concurrent.futures import ThreadPoolExecutor
    inv = dict(invariants=['TypeOK'], properties=['LocatorAtIssue', 'NamedAtIssue', 'IssuedStable'])
    n, m = ctx.pick((3, 4), (3, 6))
    small = {'NLoc': 2, 'MaxSteps': 3, 'DevCache': 'FALSE', 'DevShare': 'FALSE', 'Fns': ALL_FNS}

    def job(tag, consts, kw):
        cp = os.path.join(tlc.BUILD, 'NdnPacketsCertHist_%s_%s.cfg' % (tag, ctx.tier))
        tlc.write_cfg(cp, constants=consts, **kw)
        return tlc.run('NdnPacketsCertHist', cp, workers=2 if tag == 'a' else 1, heavy=False, tag='NdnPacketsCertHist-' + tag)
    jobs = [('a', dict(small, NLoc=n, MaxSteps=m), inv),
            # the properties must be able to fail: the "build the KeyLocator once" and the "returned name contains the library's own
            # mutable words" deviations are refuted by TLC
            ('cache', dict(small, DevCache='TRUE'), inv), ('share', dict(small, DevShare='TRUE'), inv)]
    jobs += [('w-' + w, small, dict(invariants=[w])) for w in ('W_ChangedBetween', 'W_ChangedBeforeFirstUse', 'W_IssuedAfterScribble')]
    with ThreadPoolExecutor(max_workers=len(jobs)) as ex:
        res = list(ex.map(lambda j: job(*j), jobs))
    r = res[0]
    ctx.add_tlc('NdnPacketsCertHist NLoc=%d MaxSteps=%d' % (n, m), r)
    if r.violated:
        ctx.violation('C16/spec/NdnPacketsCertHist/%s' % r.violated, 'TLC: %s violated' % r.violated, {'trace': r.errtrace[:3000]})
    elif not r.ok:
        raise MachineryError('NdnPacketsCertHist: TLC failed:\n%s' % r.out[-2000:])
    if res[1].violated != 'LocatorAtIssue':
        raise MachineryError('LocatorAtIssue does not refute the cached-locator deviation: %s' % res[1].violated)
    if res[2].violated != 'NamedAtIssue':
        raise MachineryError('NamedAtIssue does not refute the shared-words deviation: %s' % res[2].violated)
    for (tag, _c, kw), x in zip(jobs[3:], res[3:]):
        if x.violated != kw['invariants'][0]:
            raise MachineryError('witness %s not reachable' % kw['invariants'][0])


def hist_stage_b(ctx, pool):
    from harness import graph
    n, m = ctx.pick((2, 3), (2, 4))
    cp = os.path.join(tlc.BUILD, 'NdnPacketsCertHist_g.cfg')
    tlc.write_cfg(cp, constants={'NLoc': n, 'MaxSteps': m, 'DevCache': 'FALSE', 'DevShare': 'FALSE',
                                 'Fns': ctx.pick('{"self_sign", "derive"}', ALL_FNS)}, invariants=['TypeOK'])
    g = graph.dump('NdnPacketsCertHist', cp, workers=2)
    ctx.add_tlc('NdnPacketsCertHist graph NLoc=%d MaxSteps=%d (%d edges)' % (n, m, g.n_edges), g.tlc)
    paths = graph.edge_cover_paths(g, max_len=m)
    shapes = loc_shapes(ctx.rng, n, fixed=True)
    hists, certs = [], []
    for k, (init, path) in enumerate(paths):
        steps = [(a,) + tuple(args) for a, args, _ in path]
        if not any(s_[0] == 'Issue' for s_ in steps):
            continue
        # two signer classes per path, round-robin (thorough enumerates all four issuing functions and longer paths)
        kinds = [SIGNER_KINDS[k % len(SIGNER_KINDS)], SIGNER_KINDS[(k + 3) % len(SIGNER_KINDS)]]
        for kind in kinds:
            h, cs = run_history(ctx, kind, g.state[init]['loc'], steps, shapes, pool, 'B')
            # the certificates' locators must be the ones in TLC's state after the path
            final = tlaval.seq(g.state[path[-1][2]]['issued'])
            want = [c['kl'] for c in final]
            got = [e['kl'] for e in h['ev'] if e['a'] == 'Issue']
            if got != want:
                ctx.violation('C16/signer-reuse/%s/replay/key-locator-not-the-configured-one' % kind,
                              'one %s signer driven along %s: certificates name locators %s, TLC state says %s' % (kind, steps, got, want),
                              h['rep'])
            # ... and their issuer ids the reference ones, whatever the caller scribbled over in between
            for e, c in zip([e for e in h['ev'] if e['a'] == 'Issue'], final):
                if e['iss'] != c['iss']:
                    ctx.violation('C16/%s/history/name-after-scribbled-result' % FN_NAME[e['fn']] if e['iss'] == 'scribbled' else
                                  'C16/signer-reuse/%s/replay/issuer-id-not-the-reference' % kind,
                                  'one %s signer driven along %s: a %s certificate carries the issuer id "%s", TLC state says "%s"'
                                  % (kind, steps, FN_NAME[e['fn']], e['iss'], c['iss']), h['rep'])
            hists.append(h)
            certs += cs
            ctx.traces += 1
            ctx.evaluations += len(cs)
            if any(s_[0] in ('SetLocator', 'Scribble') for s_ in steps):
                ctx.nt(['B-hist', kind, steps])
    ctx.sample({'kind': 'B-history', 'signer': hists[0]['signer'], 'events': hists[0]['ev']})
    rej = judge_histories(ctx, hists, certs, 'B')
    ctx.note('B: %d cover paths of the signer-history graph (%d states, %d edges) replayed on real signer objects: %d histories, '
             '%d certificates, %d rejected' % (len(paths), len(g.state), g.n_edges, len(hists), len(certs), len(rej)))


def hist_stage_c(ctx, pool):
    hists, certs = [], []
    for k in range(ctx.pick(24, 900)):
        nloc = ctx.rng.randint(2, 6)
        shapes = loc_shapes(ctx.rng, nloc, fixed=False)
        cur = init = ctx.rng.randint(1, nloc)
        steps = []
        nissued, fresh = 0, []      # results not yet scribbled over
        for _ in range(ctx.rng.randint(4, ctx.pick(8, 16))):
            x = ctx.rng.random()
            if x < 0.4:
                cur = ctx.rng.choice([i for i in range(1, nloc + 1) if i != cur])
                steps.append(('SetLocator', cur))
            elif x < 0.5:
                steps.append(('SignData',))
            elif x < 0.65 and fresh:
                steps.append(('Scribble', fresh.pop(ctx.rng.randrange(len(fresh)))))
            else:
                steps.append(('Issue', ctx.rng.choice(HIST_FNS)))
                nissued += 1
                fresh.append(nissued)
        kind = SIGNER_KINDS[k % len(SIGNER_KINDS)]
        h, cs = run_history(ctx, kind, init, steps, shapes, pool, 'C')
        hists.append(h)
        certs += cs
        ctx.traces += 1
        ctx.evaluations += len(cs)
        ctx.nt(['C-hist', kind, steps])
    rej = judge_histories(ctx, hists, certs, 'C')
    ctx.note('C: %d random signer histories (%d certificates) judged by TLC, %d rejected' % (len(hists), len(certs), len(rej)))


# ---------------------------------------------------------------- issuing histories with related datetimes (NdnPacketsCertTimes)

TIMES_INV = dict(invariants=['TypeOK', 'EncodesRequested'], properties=['IssuedStable'])


def arg_dt(a):
    """the datetime a caller writes for argument a of NdnPacketsCertTimes"""
    if a['k'] == 'naive':
        return inst_dt(a['w'])
    if a['k'] == 'fixed':
        return inst_dt(a['w']).replace(tzinfo=timezone(timedelta(minutes=a['off'])))
    if a['k'] == 'zone':
        return wall_dt(a['zone'], a['w'], a['fold'])
    raise MachineryError('unknown kind of datetime argument %r' % (a,))


def arg_of(dt, zone=''):
    """the argument record of a datetime the driver built (zone = IANA name of its ZoneInfo)"""
    if dt.tzinfo is None:
        return {'k': 'naive', 'zone': '', 'off': 0, 'w': inst_json(dt), 'fold': 0}
    if zone:
        return {'k': 'zone', 'zone': zone, 'off': 0, 'w': inst_json(dt), 'fold': dt.fold}
    return {'k': 'fixed', 'zone': '', 'off': int(dt.utcoffset().total_seconds()) // 60, 'w': inst_json(dt), 'fold': 0}


def arg_inst(a):
    """the instant the argument denotes, by the DRIVER's arithmetic (datetime / zoneinfo)"""
    dt = arg_dt(a)
    return dt if dt.tzinfo is None else to_utc(dt)


def arg_class(a):
    return 'naive' if a['k'] == 'naive' else ('utc' if a['off'] == 0 else 'fixed-offset') if a['k'] == 'fixed' else reading_class(arg_dt(a))


def tla_arg(v):
    return {'k': v['k'], 'zone': v['zone'], 'off': v['off'], 'w': {'d': v['w']['d'], 's': v['w']['s']}, 'fold': v['fold']}


def times_q(fn, a, b, n, k, host):
    """the request (NdnPacketsCert) that one call of an issuing history amounts to"""
    ia = arg_inst(a)
    ib = arg_inst(b) if fn == 'new_cert' else ia + timedelta(seconds=n)
    dur = int((ib - ia).total_seconds())

    def tz(x):
        return NAIVE if x['k'] == 'naive' else x['off']
    return {'fn': fn, 'subj': 'ed25519', 'keyname': [{'t': 8, 'l': 3}, {'t': 8, 'l': 3}, {'t': 8, 'l': 8}], 'lit': ['', 'KEY', ''],
            'enc': 'spki', 'pubbuf': 'bytes', 'publen': None, 'issuer': {'t': 8, 'l': 3}, 'idform': 'plain',
            'sg': {'kind': 'hmac', 'r': 32, 'a': 32, 'st': True, 'haskl': True, 'kl': [{'t': 8, 'l': 2}, {'t': 8, 'l': 3}, {'t': 8, 'l': 8}],
                   'nonce': 0, 'time': 0, 'seq': 0},
            'clock': {'d': 20500 + k, 's': 3600 + k, 'ms': 5}, 'start': inst_json(ia), 'dur': dur, 'host': host,
            'tz': tz(a), 'zone': a['zone'], 'sw': a['w'], 'sf': a['fold'],
            'tz2': tz(b) if fn == 'new_cert' else tz(a), 'zone2': b['zone'] if fn == 'new_cert' else '',
            'ew': b['w'] if fn == 'new_cert' and b['zone'] else inst_json(ib), 'ef': b['fold'] if fn == 'new_cert' else 0}


def run_time_history(ctx, steps, pool, stage, host='UTC'):
    """Issue, in this one process, the certificates of steps = [('NewCert', a, b) | ('Derive', a, n)] with the real new_cert /
    derive_cert, handing over the datetimes the arguments describe.  Every certificate is checked as a whole (check_issued);
    -> (events for NdnPacketsCertTimes: call + validity text found in the certificate, certificate records for NdnPacketsCertTrace)."""
    rep = {'kind': 'time-history', 'steps': [list(x) for x in steps], 'host': host}
    ev, certs = [], []
    for k, stp in enumerate(steps):
        fn = 'new_cert' if stp[0] == 'NewCert' else 'derive'
        a = stp[1]
        b, n = (stp[2], 0) if fn == 'new_cert' else (a, stp[2])
        q = times_q(fn, a, b, n, k, host)
        q['publen'] = len(pool.pub_der('ed25519'))
        bt = issue(q, ctx.rng, pool, target=False, times=(arg_dt(a), arg_dt(b) if fn == 'new_cert' else None))
        if fn == 'derive':          # derive_cert takes the lifetime, not an end
            if q['dur'] != n:
                raise MachineryError('lifetime of a history step: %r' % (stp,))
        lay = check_issued(ctx, q, None, bt, pool, stage, label='%s@issuing-history' % FN_NAME[fn], rep=rep)
        rec = {'q': q, 'refused': bt.exc is not None, 'lay': pk.lay_json(lay or []), 'nb': [], 'na': [], 'signed': [],
               'content': getattr(bt, 'content', NO_CONTENT)}
        if not (lay and len(find(lay, 254)) == 1 and len(find(lay, 255)) == 1):
            certs.append(rec)
            break               # reported by check_issued / rejected by NdnPacketsCertTrace; the history ends here
        rec['nb'] = list(val(bt.wire, find(lay, 254)[0]))
        rec['na'] = list(val(bt.wire, find(lay, 255)[0]))
        rec['signed'] = [{'lo': lay[0][3], 'hi': lay[-1][2]}]
        certs.append(rec)
        ev.append({'fn': fn, 'a': a, 'b': b, 'n': n, 'nb': rec['nb'], 'na': rec['na'],
                   'ia': inst_json(arg_inst(a)), 'ib': inst_json(arg_inst(b))})
    return {'ev': ev, 'rep': rep}, certs


def times_violation(ctx, h, k, want, stage):
    """event #k (0-based) of history h carries another validity text than the specification's"""
    e = h['ev'][k]
    if want is None:    # rejected by the judge: WHICH text departs is read off with the driver's own rendering (classification only)
        def fmt(t):
            return ('%04d%02d%02dT%02d%02d%02d' % (t.year, t.month, t.day, t.hour, t.minute, t.second)).encode()
        bad = 'not-before' if bytes(e['nb']) != fmt(inst_dt(e['ia'])) else 'not-after'
    else:
        bad = 'not-before' if bytes(e['nb']) != want[0] else 'not-after'
    x = e['a'] if bad == 'not-before' or e['fn'] == 'derive' else e['b']
    earlier = [y for p in h['ev'][:k] for y in (p['a'], p['b'])] + ([e['a']] if bad == 'not-after' and e['fn'] == 'new_cert' else [])
    same = any(y['k'] == x['k'] and y['zone'] == x['zone'] and y['off'] == x['off'] and y['w'] == x['w'] and y['fold'] != x['fold'] for y in earlier)
    ctx.violation('C16/issuing-history/%s/validity/%s/%s%s' % (FN_NAME[e['fn']], bad, arg_class(x),
                                                               '/after-the-other-pass-of-the-same-reading' if same else ''),
                  'stage %s: certificate #%d of an issuing history (%s) carries NotBefore %r NotAfter %r%s; its own request: start %s%s; '
                  'calls so far: %s' % (stage, k + 1, FN_NAME[e['fn']], bytes(e['nb']), bytes(e['na']),
                                        '' if want is None else ', the specification says %r / %r' % want,
                                        arg_dt(e['a']).isoformat() + ' fold=%d' % e['a']['fold'],
                                        (', end %s fold=%d' % (arg_dt(e['b']).isoformat(), e['b']['fold'])) if e['fn'] == 'new_cert' else ', lifetime %d s' % e['n'],
                                        [(p['fn'], arg_dt(p['a']).isoformat(), p['a']['fold']) for p in h['ev'][:k]]),
                  dict(h['rep'], at=k + 1))


def times_stage_a_start(ctx):
    """CertTimeZoneMC (laws of the zone oracle) and NdnPacketsCertTimes (EncodesRequested over every history of the bound, with the
    situations that must be reached; the "remember the text by the datetime" deviation refuted) - started in the background,
    side by side with the other stage-A runs; times_stage_a_finish collects."""
    from concurrent.futures import ThreadPoolExecutor
    years = '{%s}' % ', '.join(str(y) for y in ctx.pick([2008, 2024, 2038], list(range(2008, 2041)) + [2100, 2400, 5000, 9998]))
    zones = '{"%s"}' % ctx.pick('Europe/Berlin', 'Australia/Lord_Howe')
    base = {'PZones': zones, 'PYears': '{2024}', 'Wide': 'FALSE', 'Lifetimes': '{3600}', 'MaxSteps': 2, 'Dev': '"none"'}

    def job(tag, module, consts, kw):
        cp = os.path.join(tlc.BUILD, '%s_%s_%s.cfg' % (module, tag, ctx.tier))
        tlc.write_cfg(cp, constants=consts, **kw)
        return tlc.run(module, cp, workers=1, heavy=False, tag='%s-%s' % (module, tag))
    jobs = [('a', 'CertTimeZoneMC', {'Years': years}, dict(invariants=['InvRound', 'InvTwoPasses', 'InvFoldOnly', 'InvGap', 'InvOffset'])),
            ('a', 'NdnPacketsCertTimes', dict(base, Wide='TRUE', Lifetimes='{1800, 3600}'),
             dict(TIMES_INV, spec='SpecW', constraints=['Reach'], postcondition='Reached')),
            ('memo', 'NdnPacketsCertTimes', dict(base, Dev='"memo"'), dict(invariants=['EncodesRequested']))]
    if not ctx.quick:       # longer histories over the narrow family of datetimes (the wide one, three calls deep: 160 000 states, minutes)
        jobs.append(('deep', 'NdnPacketsCertTimes', dict(base, MaxSteps=3), TIMES_INV))
    ex = ThreadPoolExecutor(max_workers=len(jobs))
    return ex, jobs, [ex.submit(job, *j) for j in jobs]


def times_stage_a_finish(ctx, started):
    ex, jobs, futs = started
    res = [f.result() for f in futs]
    ex.shutdown()
    for (tag, module, consts, _kw), r in list(zip(jobs, res))[:2] + list(zip(jobs, res))[3:]:
        ctx.add_tlc('%s %s' % (module, ' '.join('%s=%s' % kv for kv in sorted(consts.items()) if kv[0] != 'Dev')), r)
        if r.violated:
            ctx.violation('C16/spec/%s/%s' % (module, r.violated), 'TLC: %s violated in %s' % (r.violated, module), {'trace': r.errtrace[:3000]})
        elif not r.ok:
            raise MachineryError('%s: TLC failed:\n%s' % (module, r.out[-2000:]))
    m = re.search(r'<<"REACHED", (\w+), (\w+), (\w+), (\w+)>>', res[1].out)
    if not res[1].violated and (not m or set(m.groups()) != {'TRUE'}):
        raise MachineryError('NdnPacketsCertTimes: vacuous - one call with both passes / two calls / another clock / gap reached: %s'
                             % (m.groups() if m else 'no REACHED line'))
    if res[2].violated != 'EncodesRequested':
        raise MachineryError('NdnPacketsCertTimes: EncodesRequested does not refute the remembered-text deviation: %s' % res[2].violated)


def times_stage_b(ctx, pool, brecs):
    """Cover paths of the state graph of NdnPacketsCertTimes replayed on the real new_cert / derive_cert in one process; after
    every call the validity text of every certificate so far is compared with TLC's state."""
    from harness import graph
    done = bad = 0
    combos = ctx.pick([(ctx.rng.choice(KNOWN_ZONES), ctx.rng.choice([2024, 2025, 2038]), 'FALSE')],
                      [(z, y, 'TRUE') for z in KNOWN_ZONES for y in (2024, ctx.rng.choice([2008, 2038, 2100, 9998]))])
    for zone, year, wide in combos:
        step = 1800 if zone == 'Australia/Lord_Howe' else 3600
        cp = os.path.join(tlc.BUILD, 'NdnPacketsCertTimes_g_%s.cfg' % ctx.tier)
        tlc.write_cfg(cp, constants={'PZones': '{"%s"}' % zone, 'PYears': '{%d}' % year, 'Wide': wide, 'Lifetimes': '{%d}' % step,
                                     'MaxSteps': 2, 'Dev': '"none"'}, invariants=['TypeOK', 'EncodesRequested'])
        g = graph.dump('NdnPacketsCertTimes', cp, workers=2)
        ctx.add_tlc('NdnPacketsCertTimes graph %s %d Wide=%s (%d edges)' % (zone, year, wide, g.n_edges), g.tlc)
        paths = graph.edge_cover_paths(g, max_len=2)
        host = ctx.rng.choice(HOSTS)
        for init, path in paths:
            steps = []
            for act, args, _dst in path:
                # (graph edges carry the parameters of the named action TLC splits Next into: Ordered(a, b) / Written(fn, a, b, n, x, y))
                if act == 'Ordered' and len(args) == 2:
                    steps.append(('NewCert', tla_arg(args[0]), tla_arg(args[1])))
                elif act == 'Written' and len(args) == 6 and args[0] == 'derive':
                    steps.append(('Derive', tla_arg(args[1]), args[3]))
                else:
                    raise MachineryError('NdnPacketsCertTimes graph: unexpected edge %s%r' % (act, args))
            h, certs = run_time_history(ctx, steps, pool, 'B', host)
            brecs += certs
            done += 1
            ctx.traces += 1
            ctx.evaluations += len(certs)
            for k, ((_a, _args, dst), e) in enumerate(zip(path, h['ev'])):
                c = tlaval.seq(g.state[dst]['certs'])[k]
                want = (bytes(tlaval.seq(c['nb'])), bytes(tlaval.seq(c['na'])))
                if (bytes(e['nb']), bytes(e['na'])) != want:
                    bad += 1
                    times_violation(ctx, h, k, want, 'B')
                    break
            folds = {(x['w']['d'], x['w']['s'], x['fold']) for s_ in steps for x in s_[1:] if isinstance(x, dict) and x['k'] == 'zone'}
            if any((d, s_, 1 - f) in folds for d, s_, f in folds):
                ctx.nt(['B-times', steps])
            if done == 1:
                ctx.sample({'kind': 'B-issuing-history', 'steps': steps, 'validity': [(bytes(e['nb']).decode(), bytes(e['na']).decode()) for e in h['ev']]})
    if not done:
        raise MachineryError('no issuing history replayed')
    ctx.note('B: %d cover paths of the issuing-history graph(s) (%s) replayed on the real new_cert / derive_cert: %d departed from TLC\'s states'
             % (done, ', '.join('%s %d' % c[:2] for c in combos), bad))


def rand_time_history(rng, nsteps):
    """One process's issuing history around ONE change of one zone's clock: the datetimes handed over are drawn from a small
    family of related ones (both folds of a few readings, the same instants on other clocks, the same readings without a zone)."""
    zone = rng.choice(KNOWN_ZONES)
    year = rand_zone_year(rng)
    fam = []
    for _ in range(rng.randint(1, 3)):
        dt, (_at, before, after) = rand_near_change(rng, zone, year, repeated=rng.random() < 0.75)
        step = abs(before - after).seconds
        both = [dt.replace(fold=0), dt.replace(fold=1)]
        fam += [arg_of(x, zone) for x in both]
        fam += [arg_of(to_utc(x).replace(tzinfo=UTC)) for x in both if rng.random() < 0.5]
        fam += [arg_of(to_utc(x).replace(tzinfo=UTC).astimezone(timezone(after))) for x in both if rng.random() < 0.3]
        if rng.random() < 0.5:
            fam.append(arg_of(dt.replace(tzinfo=None, fold=0)))
        if rng.random() < 0.3:
            other = rng.choice(KNOWN_ZONES)
            fam.append(arg_of(to_utc(rng.choice(both)).replace(tzinfo=UTC).astimezone(ZoneInfo(other)), other))
    steps = []
    for _ in range(nsteps):
        a = rng.choice(fam)
        if rng.random() < 0.6:
            later = [b for b in fam if arg_inst(b) >= arg_inst(a)]
            steps.append(('NewCert', a, rng.choice(later)))
        else:
            steps.append(('Derive', a, rng.choice([0, 1, step, step, 2 * step, 3600, 86400, rng.randrange(400 * 86400)])))
    return steps


def judge_time_histories(ctx, hists, stage):
    """NdnPacketsCertTimesTrace accepts or rejects each recorded history; a corrupted copy of a good one rides along."""
    recs = [{'ev': h['ev']} for h in hists]
    good = next((h for h in hists if h['ev']), None)
    if good is not None:
        c = json.loads(json.dumps({'ev': good['ev']}))
        c['ev'][-1]['na'][-1] ^= 1
        recs.append(c)
    recs = [r for r in recs]
    tf = os.path.join(tlc.BUILD, 'c16-times-%s-%s.ndjson' % (stage, ctx.tier))
    with open(tf, 'w') as f:
        for r in recs:
            f.write(json.dumps(r) + '\n')
    r, rej = tlc.validate_traces('NdnPacketsCertTimesTrace', 'NdnPacketsCertTimesTrace.cfg', tf)
    ctx.add_tlc('NdnPacketsCertTimesTrace (%d histories)' % len(recs), r)
    if '"XVAL"' in r.out:
        raise MachineryError('CertTimeZone and zoneinfo disagree on a datetime of an issuing history: %s' % re.findall(r'<<"XVAL", \d+>>', r.out)[:3])
    if r.violated:
        raise MachineryError('NdnPacketsCertTimesTrace: unexpected invariant violation %s\n%s' % (r.violated, r.out[-1500:]))
    rej = [(i - 1, at) for i, at in rej]
    if good is not None:
        if not any(i == len(recs) - 1 for i, _ in rej):
            raise MachineryError('NdnPacketsCertTimesTrace accepted a corrupted history')
        rej = [(i, at) for i, at in rej if i != len(recs) - 1]
    for i, at in rej:
        k = int(str(at).strip() or 0)
        if not 0 < k <= len(hists[i]['ev']):
            raise MachineryError('NdnPacketsCertTimesTrace: rejection without a position: %r' % (at,))
        times_violation(ctx, hists[i], k - 1, None, stage)
    return rej


def times_stage_c(ctx, pool, recs):
    hists = []
    for _ in range(ctx.pick(40, 1500)):
        steps = rand_time_history(ctx.rng, ctx.rng.randint(2, ctx.pick(8, 40)))
        h, certs = run_time_history(ctx, steps, pool, 'C', ctx.rng.choice(HOSTS))
        recs += certs
        hists.append(h)
        ctx.traces += 1
        ctx.evaluations += len(certs)
        ctx.nt(['C-times', steps])
    rej = judge_time_histories(ctx, hists, 'C')
    ctx.note('C: %d random issuing histories with related datetimes (%d certificates) judged by TLC, %d rejected'
             % (len(hists), sum(len(h['ev']) for h in hists), len(rej)))


# ---------------------------------------------------------------- parse / edit histories (NdnPacketsCertParse)

PARSE_FIELDS = {'parse_certificate': ['name', 'content', 'ctype', 'nb', 'na', 'kl', 'sig'],
                'parse_data': ['name', 'ctype', 'kl', 'sig']}
ALL_BUFS = ['returned', 'bytes', 'copy', 'bytearray', 'memoryview']


def parse_ops(via, f):
    """the driver's copy of NdnPacketsCertParse!OpsOf (a trace with any other op is rejected by TLC)"""
    cert = via == 'parse_certificate'
    if f == 'name':
        return ['truncate', 'append', 'replace'] + (['assign'] if cert else [])
    if f == 'kl':
        return ['truncate', 'append', 'assign', 'drop']
    if f == 'ctype':
        return ['assign'] + (['drop'] if cert else [])
    return ['assign']


class NotACertificate(Exception):
    pass


def issued_values(wire):
    """The fields of an issued certificate, read from the wire by the strict reader (abstract value 0)."""
    try:
        lay = pk.layout(wire)
    except st.TlvError as e:
        raise NotACertificate('malformed-%s' % e.reason)
    for what, t, d in (('name', 7, 1), ('content', 21, 1), ('content-type', 24, 2), ('not-before', 254, None), ('not-after', 255, None)):
        if len(find(lay, t, d)) != 1:
            raise NotACertificate('lacks-' + what)
    if lay[-1][1] != 23:
        raise NotACertificate('lacks-signature-value')

    def body(e):
        return e[2] + e[3], e[2] + e[3] + e[4]

    def comps(lo, hi):
        return [bytes(wire[c[1]:c[3]]) for c in st.read_elements(wire, lo, hi)]
    out = {'name': comps(*body(find(lay, 7, 1)[0])), 'content': bytes(val(wire, find(lay, 21, 1)[0])),
           'ctype': int.from_bytes(val(wire, find(lay, 24, 2)[0]), 'big'),
           'nb': bytes(val(wire, find(lay, 254)[0])), 'na': bytes(val(wire, find(lay, 255)[0])),
           'sig': bytes(val(wire, lay[-1])), 'kl': None}
    kls = find(lay, 28, 2)
    if kls:
        inner = st.read_elements(wire, *body(kls[0]))
        if len(inner) != 1 or inner[0][0] != 7:
            raise MachineryError('key locator of an issued certificate is not a name')
        out['kl'] = comps(inner[0][2], inner[0][3])
    return out


def observe(via, obj):
    """field -> the concrete value the holder of a parse result reads now"""
    def g(fn):
        try:
            return fn()
        except Exception as e:  # noqa
            return ('raised', type(e).__name__)

    def kl(si):
        return None if si.key_locator is None else [bytes(c) for c in si.key_locator.name]
    if via == 'parse_certificate':
        return {'name': g(lambda: [bytes(c) for c in obj.name]),
                'content': g(lambda: bytes(obj.content)),
                'ctype': g(lambda: None if obj.meta_info is None else obj.meta_info.content_type),
                'nb': g(lambda: bytes(obj.signature_info.validity_period.not_before)),
                'na': g(lambda: bytes(obj.signature_info.validity_period.not_after)),
                'kl': g(lambda: kl(obj.signature_info)),
                'sig': g(lambda: bytes(obj.signature_value))}
    name, meta, _content, sp = obj
    return {'name': g(lambda: [bytes(c) for c in name]), 'ctype': g(lambda: meta.content_type),
            'kl': g(lambda: kl(sp.signature_info)), 'sig': g(lambda: bytes(sp.signature_value_buf))}


def tag_comp(k):
    w = b'edit-%d' % k
    return b'\x08' + bytes([len(w)]) + w


def edited_value(cur, f, op, k):
    """The concrete value of field f after the edit `op` of step k, applied to the value cur (what the
    serial number k stands for in the specification)."""
    t = tag_comp(k)
    if f in ('name', 'kl'):
        if op == 'drop':
            return None
        if cur is None or op == 'assign':
            return [t]
        if op == 'truncate':
            return cur[:-2] if f == 'name' else cur[:-1]
        if op == 'append':
            return cur + [t]
        return cur[:-1] + [t]
    if f == 'ctype':
        return None if op == 'drop' else 100 + k
    if f in ('nb', 'na'):
        return b'2%03d0101T000000' % k
    return b'%s-%d' % (f.encode(), k)


def apply_edit(via, obj, f, op, k):
    """What a caller does to the result it holds: in-place list operations and assignments to nested fields.
    Never writes through a view into the wire."""
    from ndn.encoding import KeyLocator, MetaInfo
    t = tag_comp(k)
    cert = via == 'parse_certificate'
    v = edited_value(None, f, op, k)
    if f == 'name':
        nm = obj.name if cert else obj[0]
        if op == 'assign':
            obj.name = [t]
        elif op == 'truncate':
            del nm[-2:]
        elif op == 'append':
            nm.append(t)
        else:
            nm[-1:] = [t]
    elif f == 'kl':
        si = obj.signature_info if cert else obj[3].signature_info
        if op == 'drop':
            si.key_locator = None
        elif si.key_locator is None or op == 'assign':
            if si.key_locator is None or k % 2:
                si.key_locator = KeyLocator()
            si.key_locator.name = [t]
        elif op == 'truncate':
            del si.key_locator.name[-1:]
        else:
            si.key_locator.name.append(t)
    elif f == 'ctype':
        if not cert:
            obj[1].content_type = v
        elif op == 'drop':
            obj.meta_info = None
        elif obj.meta_info is None:
            obj.meta_info = MetaInfo(content_type=v)
        else:
            obj.meta_info.content_type = v
    elif f == 'content':
        obj.content = v
    elif f == 'nb':
        obj.signature_info.validity_period.not_before = v
    elif f == 'na':
        obj.signature_info.validity_period.not_after = v
    elif cert:
        obj.signature_value = v
    else:
        obj[3].signature_value_buf = v


def parse_req(rng, pool):
    """A request for a certificate to be parsed: any issuing function, key type, signer and signature length."""
    return rand_req(rng, pool)


def run_parse_history(ctx, qs, steps, pool, stage):
    """Issue one certificate per request, then drive steps = [('Parse', c, buf, via) | ('Edit', h, f, op)] on
    the real parse functions and result objects. After every step every held result is read and each field
    is projected onto the specification's values (0 = as in the issued wire, k = what the edit of step k
    produced, -1 = neither). -> {'ev': events with views, 'rep': replay object} or None (issuing failed)."""
    rng = ctx.rng
    certs = []
    for q in qs:
        live = None
        if q['sg']['kind'] == 'rsa':        # importing an RSA private key takes ~70 ms: one signer object per run
            if not hasattr(pool, 'c16_rsa_signer'):
                pool.c16_rsa_signer = pk.make_inner(q['sg'], pool, [b'\x08\x01k'])
            kl = pk.name_bytes(q['sg']['kl'], rng)
            pool.c16_rsa_signer.key_locator_name = kl
            live = (pool.c16_rsa_signer, kl)
        b = issue(q, rng, pool, target=False, live=live)
        if b.exc is not None:
            return None
        try:
            b.issued = issued_values(b.wire)
        except NotACertificate as e:
            ctx.violation('C16/parse-history/%s/issued-certificate-%s' % (FN_NAME[q['fn']], e),
                          'a certificate issued for a parse history is not a complete certificate (%s): %s key as %s, %d bytes'
                          % (e, q['subj'], q.get('enc'), q['publen']), {'kind': 'req', 'stage': stage, 'q': q})
            return None
        b.same = bytes(bytearray(b.wire))
        certs.append(b)
    rep = {'kind': 'parse-history', 'qs': qs, 'steps': [list(x) for x in steps]}
    held = []           # handle -> (c, via, result object, buffer it was parsed from)
    ref = []            # handle -> field -> value in the reference (bookkeeping: input of the next edit)
    edits = {}          # field -> serial -> concrete value
    ev = []

    def concrete(c, f, x):
        return certs[c - 1].issued[f] if x == 0 else edits[f][x]

    def project(c, f, obs, hint):
        if concrete(c, f, hint) == obs:
            return hint
        if certs[c - 1].issued[f] == obs:
            return 0
        return next((k for k, v in edits.get(f, {}).items() if v == obs), -1)
    for k, stp in enumerate(steps, 1):
        if stp[0] == 'Parse':
            _, c, buf, via = stp
            b = certs[c - 1]
            w = {'returned': b.raw, 'bytes': b.same, 'copy': bytes(bytearray(b.wire)), 'bytearray': bytearray(b.wire),
                 'memoryview': memoryview(b.same)}[buf]
            try:
                obj = sv2.parse_certificate(w) if via == 'parse_certificate' else parse_data(w)
            except Exception as e:  # noqa
                ctx.violation('C16/parse-history/%s/exception-%s' % (via, type(e).__name__),
                              '%s raised %r on an issued certificate (step %d of %s)' % (via, e, k, steps), rep)
                return None
            held.append((c, via, obj, w))
            ref.append({f: 0 for f in PARSE_FIELDS[via]})
            e = {'a': 'Parse', 'c': c, 'buf': buf, 'via': via}
        else:
            _, h, f, op = stp
            c, via, obj, _ = held[h - 1]
            edits.setdefault(f, {})[k] = edited_value(concrete(c, f, ref[h - 1][f]), f, op, k)
            e = {'a': 'Edit', 'h': h, 'f': f, 'op': op}
            try:
                apply_edit(via, obj, f, op, k)
            except Exception as x:  # noqa: the result object is not what the reference says; the views show it
                e['raised'] = type(x).__name__
            ref[h - 1][f] = k
        views = []
        for i, (c, via, obj, _) in enumerate(held):
            obs = observe(via, obj)
            views.append({f: project(c, f, obs[f], ref[i][f]) for f in PARSE_FIELDS[via]})
        e['views'] = views
        ev.append(e)
        for b in certs:     # the premise of the clause: nobody touched the wire
            if bytes(b.raw) != b.wire or b.same != b.wire:
                ctx.violation('C16/parse-history/%s/wire-changed' % stp[0], 'the certificate wire changed during %s' % (stp,), rep)
                return None
    return {'ev': ev, 'rep': rep}


def parse_hist_sig(ev, k):
    """signature of the first observation of event #k (0-based) that departs from the reference"""
    e = ev[k]
    prev = ev[k - 1]['views'] if k else []
    vias = [x['via'] for x in ev[:k + 1] if x['a'] == 'Parse']
    for h, v in enumerate(e['views']):
        for f in PARSE_FIELDS[vias[h]]:
            x = v[f]
            mine = e['a'] == 'Edit' and e['h'] == h + 1 and e['f'] == f
            if h >= len(prev):
                if x != 0:
                    return 'C16/parse-history/%s/parse/%s-not-as-issued/%s' % (
                        vias[h], f, 'value-written-into-an-earlier-result' if x > 0 else 'other-value')
            elif mine:
                if x != k + 1:
                    return 'C16/parse-history/%s/edit/%s-%s/not-what-the-holder-wrote' % (vias[h], f, e['op'])
            elif x != prev[h][f]:
                return 'C16/parse-history/%s/held-result/%s-changed-by-%s' % (
                    vias[h], f, 'a-later-parse' if e['a'] == 'Parse' else 'an-edit-of-another-result')
    return 'C16/parse-history/%s/rejected' % e['a']


def state_views(s):
    objs, handles = tlaval.seq(s['objs']), tlaval.seq(s['handles'])
    return [dict(objs[h - 1]['val']) for h in handles]


def parse_stage_a(ctx):
    from concurrent.futures import ThreadPoolExecutor
    n, m, hh = ctx.pick((2, 4, 3), (2, 5, 4))
    bufs = '{%s}' % ', '.join('"%s"' % b for b in ctx.pick(['returned', 'copy', 'memoryview'], ALL_BUFS))

    def job(tag, consts, **kw):
        cp = os.path.join(tlc.BUILD, 'NdnPacketsCertParse_%s_%s.cfg' % (tag, ctx.tier))
        c = {'NCert': 2, 'MaxSteps': 3, 'MaxHandles': 3, 'Bufs': bufs, 'Dev': '"none"'}
        c.update(consts)
        tlc.write_cfg(cp, constants=c, **kw)
        return tlc.run('NdnPacketsCertParse', cp, workers=2 if tag == 'a' else 1, heavy=False, coverage=tag == 'a')
    jobs = [('a', {'NCert': n, 'MaxSteps': m, 'MaxHandles': hh}, dict(invariants=['TypeOK'], properties=['ParseReturnsIssued', 'Independent'])),
            # the properties must be able to fail: TLC refutes the "one remembered result per wire" deviation
            ('memo1', {'Dev': '"memo"'}, dict(properties=['ParseReturnsIssued'])),
            ('memo2', {'Dev': '"memo"'}, dict(properties=['Independent']))]
    jobs += [('wit', {'MaxSteps': 5}, dict(invariants=['W_All']))]
    with ThreadPoolExecutor(max_workers=len(jobs)) as ex:
        res = list(ex.map(lambda j: job(*j[:2], **j[2]), jobs))
    r = res[0]
    ctx.add_tlc('NdnPacketsCertParse NCert=%d MaxSteps=%d MaxHandles=%d' % (n, m, hh), r)
    if r.violated:
        ctx.violation('C16/spec/NdnPacketsCertParse/%s' % r.violated, 'TLC: %s violated' % r.violated, {'trace': r.errtrace[:3000]})
    elif not r.ok:
        raise MachineryError('NdnPacketsCertParse: TLC failed:\n%s' % r.out[-2000:])
    idle = [a for a, (d, _t) in (r.coverage or {}).items() if d == 0]
    if idle or not r.coverage:
        raise MachineryError('NdnPacketsCertParse: actions never taken: %s' % (idle or 'no coverage table'))
    for (tag, _c, kw), x in zip(jobs[1:], res[1:]):
        want = (kw.get('properties') or kw.get('invariants'))[0]
        if x.violated != want:
            raise MachineryError('NdnPacketsCertParse: %s is not refuted / reached (%s): %s' % (want, tag, x.violated))


def parse_stage_b(ctx, pool):
    from harness import graph
    n, m, hh = ctx.pick((2, 3, 3), (2, 4, 3))
    bufs = ctx.pick(['returned', 'copy', 'memoryview'], ALL_BUFS)
    cp = os.path.join(tlc.BUILD, 'NdnPacketsCertParse_g_%s.cfg' % ctx.tier)
    tlc.write_cfg(cp, constants={'NCert': n, 'MaxSteps': m, 'MaxHandles': hh, 'Dev': '"none"',
                                 'Bufs': '{%s}' % ', '.join('"%s"' % b for b in bufs)}, invariants=['TypeOK'])
    g = graph.dump('NdnPacketsCertParse', cp, workers=2)
    ctx.add_tlc('NdnPacketsCertParse graph NCert=%d MaxSteps=%d (%d edges)' % (n, m, g.n_edges), g.tlc)
    paths = graph.edge_cover_paths(g, max_len=m)
    done = bad = 0
    for init, path in paths:
        steps = [(a,) + tuple(args) for a, args, _ in path]
        used = max([s_[1] for s_ in steps if s_[0] == 'Parse'] or [0])
        if len(steps) < 2 or not used:
            continue
        h = None
        for _ in range(5):      # a request the library refuses is the other stages' business
            h = run_parse_history(ctx, [parse_req(ctx.rng, pool) for _ in range(used)], steps, pool, 'B')
            if h is not None or ctx.violations:
                break
        if h is None:
            if ctx.violations:
                continue
            raise MachineryError('could not issue certificates for a parse history')
        done += 1
        ctx.traces += 1
        ctx.evaluations += sum(len(e['views']) for e in h['ev'])
        # after every step: what the holders read is what TLC's state says they read
        for k, ((_a, _args, dst), e) in enumerate(zip(path, h['ev'])):
            want = state_views(g.state[dst])
            if e['views'] != want:
                bad += 1
                ctx.violation(parse_hist_sig(h['ev'], k), 'parse history %s: after step %d the holders read %s, TLC state says %s '
                              '(0 = as issued, k = written by the edit of step k, -1 = neither)' % (steps, k + 1, e['views'], want),
                              dict(h['rep'], at=k + 1))
                break
        if any(s_[0] == 'Edit' for s_ in steps[:-1]) and steps[-1][0] == 'Parse':
            ctx.nt(['B-parse', steps])
        if done == 1:
            ctx.sample({'kind': 'B-parse-history', 'steps': steps, 'views': [e['views'] for e in h['ev']]})
    if not done:
        raise MachineryError('no parse history replayed')
    ctx.note('B: %d cover paths of the parse/edit graph (%d states, %d edges) replayed on real parse results: %d departed from TLC\'s states'
             % (done, len(g.state), g.n_edges, bad))


def rand_parse_steps(rng, ncert, nsteps):
    steps, held = [], []
    for _ in range(nsteps):
        if not held or (rng.random() < 0.45 and len(held) < 12):
            c = rng.randint(1, ncert)
            if held and rng.random() < 0.6:
                c = rng.choice(held)[0]          # the same wire again
            via = rng.choice(['parse_certificate'] * 3 + ['parse_data'])
            steps.append(('Parse', c, rng.choice(ALL_BUFS), via))
            held.append((c, via))
        else:
            h = rng.randrange(len(held))
            f = rng.choice(PARSE_FIELDS[held[h][1]])
            steps.append(('Edit', h + 1, f, rng.choice(parse_ops(held[h][1], f))))
    return steps


def judge_parse(ctx, hists, stage):
    """TLC (NdnPacketsCertParseTrace) accepts or rejects each recorded history. One corrupted copy of a good history
    is added: the judge must reject it."""
    recs = [{'ev': h['ev']} for h in hists]
    good = next((h for h in hists if len(h['ev']) >= 2), None)
    if good is not None:
        bad = json.loads(json.dumps({'ev': good['ev']}))
        v = bad['ev'][-1]['views'][0]
        f = sorted(v)[0]
        v[f] = -1 if v[f] == 0 else 0
        recs.append(bad)
    rej = pk.judge(ctx, 'NdnPacketsCertParseTrace', 'NdnPacketsCertParseTrace.cfg', recs, 'c16-parse-' + stage)
    if good is not None:
        if not any(i == len(recs) - 1 for i, _ in rej):
            raise MachineryError('NdnPacketsCertParseTrace accepted a corrupted history')
        rej = [(i, at) for i, at in rej if i != len(recs) - 1]
    for i, at in rej:
        h = hists[i]
        k = int(str(at).strip() or 0)
        if not 0 < k <= len(h['ev']):
            raise MachineryError('NdnPacketsCertParseTrace: rejection without a position: %r' % (at,))
        ctx.violation(parse_hist_sig(h['ev'], k - 1), 'stage %s: parse history rejected by NdnPacketsCertParseTrace at event %d %s: steps %s'
                      % (stage, k, h['ev'][k - 1], h['rep']['steps']), dict(h['rep'], rejected_at=k))
    return rej


def parse_stage_c(ctx, pool):
    hists = []
    for _ in range(ctx.pick(120, 2500)):
        ncert = ctx.rng.randint(1, 3)
        steps = rand_parse_steps(ctx.rng, ncert, ctx.rng.randint(3, ctx.pick(12, 30)))
        h = run_parse_history(ctx, [parse_req(ctx.rng, pool) for _ in range(ncert)], steps, pool, 'C')
        if h is None:
            continue
        hists.append(h)
        ctx.traces += 1
        ctx.evaluations += sum(len(e['views']) for e in h['ev'])
        ctx.nt(['C-parse', steps])
    if not hists:
        raise MachineryError('no parse history recorded')
    rej = judge_parse(ctx, hists, 'C')
    ctx.note('C: %d random parse/edit histories judged by TLC, %d rejected' % (len(hists), len(rej)))


# ---------------------------------------------------------------- datetime cross-validation

def datetime_records(rng, n):
    recs = []
    def fmt(t):
        return list(('%04d%02d%02dT%02d%02d%02d' % (t.year, t.month, t.day, t.hour, t.minute, t.second)).encode())
    special = [(1, 1, 1), (999, 12, 31), (1000, 1, 1), (1600, 2, 29), (1900, 2, 28), (1900, 3, 1), (1969, 12, 31), (1970, 1, 1), (1970, 12, 31), (1972, 2, 29), (1999, 12, 31), (2000, 1, 1), (2000, 2, 29), (2000, 3, 1),
               (2024, 2, 28), (2024, 2, 29), (2024, 3, 1), (2038, 1, 19), (2099, 12, 31), (2100, 1, 1), (2100, 2, 28),
               (2100, 3, 1), (2399, 12, 31), (2400, 2, 29), (2400, 12, 31), (9999, 1, 1), (9999, 12, 30), (9979, 12, 31)]
    for i in range(n):
        if i < len(special):
            d = days(*special[i])
        else:
            d = rng.randint(days(1, 1, 1) if rng.random() < 0.1 else 0, days(9979, 12, 31))
        s = rng.choice([0, 1, 59, 60, 3599, 3600, 43200, 86399, rng.randrange(86400)])
        nsec = rng.choice([0, 1, 86400 - s, 86400, 365 * 86400, 7305 * 86400, rng.randrange(7305 * 86400)])
        t = T0 + timedelta(days=d, seconds=s)
        nsec = min(nsec, int((datetime(9999, 12, 31, 23, 59, 59) - t).total_seconds()))
        t2 = t + timedelta(seconds=nsec)
        recs.append({'d': d, 's': s, 'y': t.year, 'm': t.month, 'dd': t.day, 'n': nsec,
                     'txt': fmt(t), 'txt2': fmt(t2)})
    return recs


CAL_WINDOWS_Q = [(997, 1002), (1970, 2030), (2096, 2104), (2396, 2404), (9995, 9999)]
CAL_WINDOWS_T = [(1, 12), (990, 1010), (1970, 2410), (9900, 9999)]


def run(ctx):
    ctx.rule = ('A: calendar laws day by day + LawCert on every enumerated request; B: one real issuance per request TLC '
                'enumerates, compared entry by entry and verified under the issuing key; C: random requests judged by TLC. '
                'non-trivial = distinct request whose signature is shorter than its reserve, or whose validity crosses a '
                'year boundary or touches 29 February, or whose start is given in a zone other than UTC, or whose version '
                'number is not 8 bytes wide, or whose key bits are not a canonical SubjectPublicKeyInfo held in a bytes object')
    ctx.assumptions = ['PyCryptodome primitives (incl. its key exporters / importers: the encodings of the subject keys and what a relying '
                       'party reads from key bits)', 'strict TLV reader is the projection from bytes to the element tree',
                       'an aware datetime denotes an instant; a naive one is UTC (the convention of self_sign and the CLI)',
                       'self_sign / sign_req request their documented periods (epoch..now+20 years on the same calendar day, now..now+10 days)',
                       'self_sign on 29 February towards a non-leap year: 28 February or 1 March are both accepted']
    scale = ctx.pick(1, 2)
    pool = pk.Pool(ctx.rng)
    lens = {'Scale': scale, 'LenEc256': len(pool.pub_der('ec256')), 'LenEc384': len(pool.pub_der('ec384')),
            'LenRsa': len(pool.pub_der('rsa')), 'LenEd': len(pool.pub_der('ed25519'))}
    if 'A' in ctx.stages:
        times_bg = times_stage_a_start(ctx)
        for (fy, ty) in ctx.pick(CAL_WINDOWS_Q, CAL_WINDOWS_T):
            cp = os.path.join(tlc.BUILD, 'CertTimeMC_%d.cfg' % fy)
            tlc.write_cfg(cp, constants={'FromY': fy, 'ToY': ty}, invariants=['InvCivil', 'InvInverse', 'InvRender', 'InvParse', 'InvEpoch'])
            r = tlc.run('CertTimeMC', cp, workers=1, heavy=False)
            ctx.add_tlc('CertTimeMC %d..%d' % (fy, ty), r)
            # vacuity: the walk must have visited every day of the window (so every 29 February in it and no
            # 29 February 2100); the expected count comes from datetime, the other calendar
            if r.ok and r.distinct != (datetime(ty, 12, 31) - datetime(fy, 1, 1)).days + 1:
                raise MachineryError('CertTimeMC %d..%d visited %d days' % (fy, ty, r.distinct))
            if r.violated:
                ctx.violation('C16/spec/CertTime/%s' % r.violated, 'TLC: %s violated in CertTimeMC %d..%d' % (r.violated, fy, ty),
                              {'trace': r.errtrace[:3000]})
        recs = datetime_records(ctx.rng, 400)
        zrecs = zone_records(ctx.rng, ctx.pick(600, 6000))
        rej = pk.judge(ctx, 'CertTimeTrace', 'CertTimeTrace.cfg', recs + zrecs, 'c16-datetime')
        if rej:
            raise MachineryError('CertTime / CertTimeZone and datetime / zoneinfo disagree on %s' % [(code, (recs + zrecs)[i]) for i, code in rej[:3]])
        ctx.note('A: CertTime agrees with datetime on %d instants, CertTimeZone with zoneinfo on %d instants and readings around the '
                 'changes of %d zones\' clocks' % (len(recs), len(zrecs), len(KNOWN_ZONES)))
        cfgp = os.path.join(tlc.BUILD, 'NdnPacketsCertMC_%s.cfg' % ctx.tier)
        tlc.write_cfg(cfgp, constants=lens, invariants=['InvCert', 'InvValue'])
        r = tlc.run('NdnPacketsCertMC', cfgp, workers=ctx.pick(4, int(os.environ.get('VERIF_WORKERS', '16'))))
        ctx.add_tlc('NdnPacketsCertMC Scale=%d' % scale, r)
        if r.violated:
            ctx.violation('C16/spec/%s' % r.violated, 'TLC: %s violated in NdnPacketsCertMC' % r.violated, {'trace': r.errtrace})
        hist_stage_a(ctx)
        parse_stage_a(ctx)
        times_stage_a_finish(ctx, times_bg)
    if 'B' in ctx.stages:
        out = os.path.join(tlc.BUILD, 'c16-gen-%s.ndjson' % ctx.tier)
        cfgp = os.path.join(tlc.BUILD, 'NdnPacketsCertGen_%s.cfg' % ctx.tier)
        tlc.write_cfg(cfgp, spec=None, constants=lens)
        if os.path.exists(out):
            os.unlink(out)
        r = tlc.run('NdnPacketsCertGen', cfgp, workers=1, heavy=True, env={'OUT': out})
        m = re.search(r'<<\s*"WITNESSES",\s*(\[.*?\]),\s*"COUNT"', r.out, re.S)
        wit = tlaval.parse(m.group(1)) if m else {}
        missing = [k for k, v in wit.items() if v is not True]
        if missing or len(wit) < 6:
            raise MachineryError('vacuous: situations not in the request space: %s' % (missing or 'no witness table'))
        with open(out) as f:
            lines = [json.loads(l) for l in f if l.strip()]
        if not lines:
            raise MachineryError('NdnPacketsCertGen produced nothing')
        ctx.note('B: TLC enumerated %d issue requests' % len(lines))
        brecs = []
        for ln in lines:
            q, exp = ln['q'], ln['exp']
            brecs.append(record(ctx, q, pool, exp))
            ctx.traces += 1
            ctx.evaluations += 1
            if nontrivial(q):
                ctx.nt(['B', q])
            ctx.sample({'kind': 'B-request', 'q': q, 'expected_layout': exp['lay'][:5],
                        'not_before': bytes(exp['nb']).decode(), 'not_after': [bytes(x).decode() for x in exp['na']]}, limit=2)
        times_stage_b(ctx, pool, brecs)
        # the enumerated requests' observations also go through the TLC judge (the validity of self-issued
        # certificates is a predicate over the text found in the wire, evaluated by CertTime!ParseInst)
        report_rejected(ctx, brecs, pk.judge(ctx, 'NdnPacketsCertTrace', 'NdnPacketsCertTrace.cfg', brecs, 'c16-btraces'), 'B')
        hist_stage_b(ctx, pool)
        parse_stage_b(ctx, pool)
    if 'C' in ctx.stages:
        n = ctx.pick(900, 12000)
        recs = [record(ctx, rand_req(ctx.rng, pool), pool) for _ in range(n)]
        for r_ in recs:
            if nontrivial(r_['q']):
                ctx.nt(['C', r_['q']])
        ctx.sample({'kind': 'C-record', 'q': recs[0]['q'], 'nb': bytes(recs[0]['nb']).decode(), 'na': bytes(recs[0]['na']).decode()})
        times_stage_c(ctx, pool, recs)
        rejected = judge_certs(ctx, recs, 'c16-traces')
        ctx.traces += n
        ctx.evaluations += n
        ctx.note('C: %d recorded issuances judged by TLC, %d rejected' % (len(recs), len(rejected)))
        report_rejected(ctx, recs, rejected, 'C')
        hist_stage_c(ctx, pool)
        parse_stage_c(ctx, pool)


def judge_certs(ctx, recs, name):
    """NdnPacketsCertTrace on recorded issuances. Corrupted copies of accepted records ride along: the Content clauses of
    the judge must reject each of them with its own code (else the judge is not judging)."""
    def own(r):
        q = r['q']
        return not r['refused'] and r['content'] == {'is': 'given', 'key': 'subject', 'carried': True} and \
            q['fn'] in ('self_sign', 'sign_req') and q['sg']['kind'] in CHECKERS
    base = next((r for r in recs if own(r) and r['q'].get('enc', 'spki') != 'spki'), None) or next((r for r in recs if own(r)), None)
    canaries = []
    if base is not None:
        for code, patch in (('7', {'is': 'other'}), ('8', {'key': 'other-key'}), ('8', {'key': 'unreadable'}), ('9', {'carried': False})):
            c = json.loads(json.dumps(base))
            c['content'].update(patch)
            canaries.append((code, c))
    rej = pk.judge(ctx, 'NdnPacketsCertTrace', 'NdnPacketsCertTrace.cfg', recs + [c for _, c in canaries], name)
    got = {i: str(code).strip() for i, code in rej}
    # (a base record the judge rejects on another clause - a changed tree - makes the canaries meaningless: skipped)
    if base is not None and got.get(recs.index(base)) is None:
        for k, (code, _c) in enumerate(canaries):
            if got.get(len(recs) + k) != code:
                raise MachineryError('NdnPacketsCertTrace: a record with a corrupted Content observation got verdict %r, expected %s'
                                     % (got.get(len(recs) + k, 'accepted'), code))
    return [(i, code) for i, code in rej if i < len(recs)]


def report_rejected(ctx, recs, rejected, stage):
    if any(str(code).strip() == '30' for _i, code in rejected):
        i = next(i for i, code in rejected if str(code).strip() == '30')
        raise MachineryError('CertTimeZone and zoneinfo disagree on the datetimes of a recorded request (NdnPacketsCert!ArgsDenote): %s'
                             % json.dumps(recs[i]['q'])[:600])
    names = {'2': 'exception', '3': 'layout', '4': 'validity/not-before', '5': 'validity/not-after', '6': 'signed-range',
             '7': 'content-is-not-the-key-given', '8': 'content/key-a-relying-party-imports',
             '9': 'content/certificate-does-not-verify-under-the-key-it-carries'}
    for i, code in rejected:
        rec = recs[i]
        code = str(code).strip()
        if code == '20':
            continue        # self_sign on 29 February: already reported by check_issued under its own signature
        q = rec['q']
        if code == '8' and rec['content']['is'] == 'given':
            # the Content IS the bytes given, so what imports from it is PyCryptodome's verdict on the harness's own bytes
            raise MachineryError('NdnPacketsCert!Unreadable disagrees with PyCryptodome on the %s encoding of a %s key' % (q.get('enc'), q['subj']))
        sig = 'C16/%s/trace/%s' % (FN_NAME[q['fn']], names.get(code, 'clause-' + code))
        if code in ('7', '8', '9'):
            sig += '/' + q.get('enc', 'spki')
        if code in ('4', '5') or (code == '3' and zone_class(q) == 'year-below-1000'):
            sig += '/' + zone_class(q, {'4': 'nb', '5': 'na'}.get(code))
        ctx.violation(sig, 'stage %s: recorded issuance rejected by NdnPacketsCertTrace (clause %s = %s): nb=%r na=%r q=%s' % (
            stage, code, names.get(code), bytes(rec['nb']), bytes(rec['na']), json.dumps(q)[:500]),
            {'kind': 'trace', 'rec': rec, 'code': code})


def nontrivial(q):
    if any(w for w in q['lit'][:-2]) or q.get('enc', 'spki') != 'spki' or q.get('pubbuf', 'bytes') != 'bytes':
        return True
    if q['sg']['a'] < q['sg']['r'] or (q['fn'] in ('derive', 'new_cert') and (q['tz'] not in (NAIVE, 0) or q['tz2'] != q['tz'])):
        return True
    if q['fn'] == 'derive' and q['idform'] in ('typed', 'escaped', 'short'):
        return True
    if q.get('zone') or q.get('zone2') or q.get('host', 'UTC') != 'UTC' or q['start']['d'] < 0:
        return True
    if q['clock']['d'] < 50:
        return True
    if q['fn'] in ('derive', 'new_cert'):
        a = T0 + timedelta(days=q['start']['d'], seconds=q['start']['s'])
        e = a + timedelta(seconds=q['dur'])
        return a.year != e.year or (a.month, a.day) == (2, 29) or (e.month, e.day) == (2, 29)
    c = sv2_date(q['clock'])
    return (c.month, c.day) in ((2, 29), (12, 31))


def replay(ctx, path):
    with open(path) as f:
        obj = json.load(f)
    pool = pk.Pool(ctx.rng)
    if obj.get('kind') == 'history':
        shapes = {int(k): v for k, v in obj['shapes'].items()}
        steps = [tuple(x) for x in obj['steps']]
        print('one %s signer, initial locator #%d, steps %s' % (obj['signer'], obj['init'], steps))
        h, certs = run_history(ctx, obj['signer'], obj['init'], steps, shapes, pool, 'replay', host=obj.get('host', 'UTC'))
        print('events (kl = locator found in the certificate):', h['ev'])
        rej = judge_histories(ctx, [h], certs, 'replay')
        for v in ctx.violations:
            print('reproduced:', v['sig'], '-', v['what'][:300])
        return 1 if ctx.violations else 0
    if obj.get('kind') == 'parse-history':
        steps = [tuple(x) for x in obj['steps']]
        print('certificates issued for requests:', json.dumps(obj['qs'])[:600])
        h = run_parse_history(ctx, obj['qs'], steps, pool, 'replay')
        if h is not None:
            for k, (stp, e) in enumerate(zip(steps, h['ev']), 1):
                print('step %d %s -> the holders read %s' % (k, stp, e['views']))
            print('(0 = the field as in the issued wire, k = the value written by the edit of step k, -1 = neither)')
            judge_parse(ctx, [h], 'replay')
        for v in ctx.violations:
            print('reproduced:', v['sig'], '-', v['what'][:300])
        return 1 if ctx.violations else 0
    if obj.get('kind') == 'time-history':
        steps = [tuple(x) for x in obj['steps']]
        for k, stp in enumerate(steps, 1):
            print('call %d: %s start %s fold=%d%s' % (k, stp[0], arg_dt(stp[1]).isoformat(), stp[1]['fold'],
                                                     (' end %s fold=%d' % (arg_dt(stp[2]).isoformat(), stp[2]['fold'])) if stp[0] == 'NewCert' else ' lifetime %d s' % stp[2]))
        h, certs = run_time_history(ctx, steps, pool, 'replay', obj.get('host', 'UTC'))
        for k, e in enumerate(h['ev'], 1):
            print('certificate %d: NotBefore %s NotAfter %s (requested instants, by zoneinfo: %s / %s)' % (
                k, bytes(e['nb']).decode(), bytes(e['na']).decode(), inst_dt(e['ia']).isoformat(),
                (inst_dt(e['ib']) if e['fn'] == 'new_cert' else inst_dt(e['ia']) + timedelta(seconds=e['n'])).isoformat()))
        judge_time_histories(ctx, [h], 'replay')
        report_rejected(ctx, certs, pk.judge(ctx, 'NdnPacketsCertTrace', 'NdnPacketsCertTrace.cfg', certs, 'c16-replay'), 'replay')
        for v in ctx.violations:
            print('reproduced:', v['sig'], '-', v['what'][:300])
        return 1 if ctx.violations else 0
    if obj.get('kind') == 'trace':
        norm_q(obj['rec']['q'])
        rej = pk.judge(ctx, 'NdnPacketsCertTrace', 'NdnPacketsCertTrace.cfg', [obj['rec']], 'c16-replay')
        print('recorded issuance:', 'rejected %s' % rej if rej else 'accepted')
        q = obj['rec']['q']
    else:
        q = obj['q']
    print('request:', json.dumps(q))
    b = issue(q, ctx.rng, pool, target=q['sg']['kind'] == 'ecdsa' and q['sg']['a'] > 0)
    if b.exc is not None:
        print('raised:', repr(b.exc))
    else:
        lay = pk.layout(b.wire)
        print('certificate (%d bytes): %s' % (len(b.wire), b.wire.hex()))
        print('NotBefore', bytes(val(b.wire, find(lay, 254)[0])), 'NotAfter', bytes(val(b.wire, find(lay, 255)[0])))
        if q['fn'] in ('derive', 'new_cert'):
            print('issuer id given as %r' % (getattr(b, 'issuer_arg', None),))
            print('requested start', start_datetime(q).isoformat(), '(= %s UTC)' % sv2_date(q['start']).isoformat(), 'lifetime', q['dur'], 's')
    before = len(ctx.violations)
    check_issued(ctx, q, None, b, pool, 'replay')
    for v in ctx.violations[before:]:
        print('reproduced:', v['sig'], '-', v['what'][:300])
    return 1 if (len(ctx.violations) > before or obj.get('kind') == 'trace' and rej) else 0
