"""C01 - Interest/Data encode -> decode round trip. Spec: NdnPackets.tla (+Cfg, MC, Gen, Trace).

A  TLC checks the layout laws (one exactly-tiled element, imperative shrink = declarative tree,
   fields found again in packet-format order, ranges nested, regions/edit verdicts consistent)
   on every configuration of NdnPacketsCfg!CfgSpace; vacuity witnesses must be reachable.
B  TLC (NdnPacketsGen) enumerates the same configurations with the expected element layout; each is
   built with the real make_interest / make_data and real signers, the wire is projected by the
   strict TLV reader and compared entry by entry (type, offset, header size, length); then
   parse_interest / parse_data must return the caller's fields.  The representation of every name-valued parameter
   (packet name, each ForwardingHint delegation, KeyLocator name: URI string, list / tuple / one-shot iterator of
   encoded, memoryview, text or mixed components, encoded Name as bytes / bytearray / memoryview) and of the octet
   strings is part of the configuration (cfg.rep; slice `forms` pins every form x 0..2 components x 1..2 delegations,
   everywhere else the executor rotates); the expected tree does not depend on it (NdnPackets!LawForms).
C  random configurations beyond the alphabet (<= 8 components of any type/length, <= 3 hint names,
   payloads <= 70 000, P-256/384/521 ECDSA with whatever length comes out, synthetic signers with
   any reserve/actual) and - thorough - every payload length 0..70 000 for three configurations are
   recorded as {cfg, observed layout} and judged by TLC (NdnPacketsTrace); field equality is
   compared by the harness (payload bytes never enter TLA+).
"""
import json, os, re

from harness import tlc, tlaval, pktkit as pk, strict_tlv as st
from harness.tlc import MachineryError
from ndn.encoding import parse_interest, parse_data

INVS = ['TypeOK', 'InvBuffer', 'InvMade', 'InvRefused']
BND = set(pk.BND)


def signed(cfg):
    return cfg['sg']['kind'] != 'none'


def fn_of(cfg):
    return 'make_interest' if cfg['kind'] == 'interest' else 'make_data'


def parse_check(cfg, b):
    """Compare what parse_* returns with what the caller passed. Returns list of differing field names."""
    bad = []
    wire = b.wire
    if cfg['kind'] == 'interest':
        try:
            name, par, app, sp = parse_interest(wire)
        except Exception as e:  # noqa
            return ['exception-' + type(e).__name__]
        pname = [bytes(c) for c in name]
        need = cfg['app'] >= 0 or signed(cfg)
        pd = [i for i, c in enumerate(cfg['name']) if c['t'] == pk.T_PD]
        if need and not pd:
            ok = pname[:-1] == b.comps and len(pname) == len(b.comps) + 1 and \
                len(pname[-1]) == 34 and pname[-1][:2] == b'\x02\x20'
        elif need:
            ok = len(pname) == len(b.comps) and all(p == g for k, (p, g) in enumerate(zip(pname, b.comps)) if k != pd[0]) \
                and len(pname[pd[0]]) == 34 and pname[pd[0]][:2] == b'\x02\x20'
        else:
            ok = pname == b.comps
        if not ok:
            bad.append('name')
        if b.final_name != pname:
            # Not part of C01's statement (which speaks about parsing the wire): with a caller-supplied
            # ParametersSha256Digest placeholder, need_final_name returns the caller's stale component
            # instead of the digest written to the wire. Recorded as an observation only.
            b.stale_final_name = True
        if bool(par.can_be_prefix) != cfg['cbp']:
            bad.append('can_be_prefix')
        if bool(par.must_be_fresh) != cfg['mbf']:
            bad.append('must_be_fresh')
        if par.nonce != b.param.nonce:
            bad.append('nonce')
        if par.lifetime != b.param.lifetime:
            bad.append('lifetime')
        if par.hop_limit != b.param.hop_limit:
            bad.append('hop_limit')
        if [[bytes(c) for c in n] for n in (par.forwarding_hint or [])] != b.fh:
            bad.append('forwarding_hint')
        if need:
            if app is None or bytes(app) != (b.payload or b''):
                bad.append('application_parameters')
        elif app is not None:
            bad.append('application_parameters')
    else:
        try:
            name, meta, content, sp = parse_data(wire)
        except Exception as e:  # noqa
            return ['exception-' + type(e).__name__]
        if [bytes(c) for c in name] != b.comps:
            bad.append('name')
        want = b.meta_in or (0, None, None)     # absent MetaInfo = default MetaInfo (ContentType BLOB = 0)
        got = (meta.content_type, meta.freshness_period, meta.final_block_id)
        if (want[0] or 0) != (got[0] or 0):
            bad.append('content_type')
        if want[1] != got[1]:
            bad.append('freshness_period')
        if (None if want[2] is None else bytes(want[2])) != (None if got[2] is None else bytes(got[2])):
            bad.append('final_block_id')
        if (b.payload is None) != (content is None) or (content is not None and bytes(content) != b.payload):
            bad.append('content')
    if signed(cfg) != (sp.signature_info is not None):
        bad.append('signature_info')
    if signed(cfg) and (sp.signature_value_buf is None or len(sp.signature_value_buf) != b.rec.actual):
        bad.append('signature_value')
    return bad


def pinned_rep(cfg):
    """the configuration fixes the representation of a name-valued parameter to something else than a list of encoded components"""
    rep = cfg.get('rep') or {}
    fs = [rep.get('name'), rep.get('kl')] + list(rep.get('fh') or [])
    return any(isinstance(f, dict) and f.get('box') != 'any' and (f.get('box'), f.get('item')) != ('list', 'bytes') for f in fs)


def nontrivial(cfg, lay):
    sg = cfg['sg']
    if pinned_rep(cfg):
        return True
    if sg['a'] < sg['r']:
        return True
    if lay and (lay[0][4] in BND):
        return True
    if cfg['app'] in BND or cfg['content'] in BND:
        return True
    return any(c['t'] == pk.T_PD for c in cfg['name']) and cfg['kind'] == 'interest'


def check_built(ctx, cfg, exp, b, stage):
    """exp: TLC's expectation (stage B) or None (stage C: TLC judges the layout afterwards).
    Returns the observed layout or None."""
    fn = fn_of(cfg)
    rep = {'kind': 'cfg', 'stage': stage, 'cfg': cfg, 'forms': getattr(b, 'forms', None)}
    refuse_ok = exp['refuse'] if exp is not None else None
    if b.exc is not None:
        if isinstance(b.exc, MachineryError):
            raise b.exc
        if refuse_ok is False or not isinstance(b.exc, (ValueError, TypeError)):
            ctx.violation('C01/%s/exception/%s' % (fn, type(b.exc).__name__),
                          '%s raised %r for a configuration the reference builds' % (fn, b.exc), rep)
        return None
    if cfg['kind'] == 'interest' and any(c['t'] == pk.T_PD and c['l'] != 32 for c in cfg['name']):
        ctx.violation('C01/make_interest/digest-placeholder-not-32-bytes/not-refused',
                      'make_interest accepted a ParametersSha256Digest placeholder of %s bytes and emitted %s' % (
                          [c['l'] for c in cfg['name'] if c['t'] == pk.T_PD], b.wire[:60].hex()), rep)
        return None
    try:
        obs = pk.layout(b.wire)
    except st.TlvError as e:
        ctx.violation('C01/%s/layout/malformed-%s' % (fn, e.reason),
                      '%s emitted a wire that is not one well-formed TLV element: %s' % (fn, e), rep)
        return None
    if len([e for e in obs if e[0] == 0]) != 1 or obs[0][1] != (5 if cfg['kind'] == 'interest' else 6):
        ctx.violation('C01/%s/layout/not-one-element' % fn, 'wire is not exactly one element of the packet type', rep)
        return None
    if exp is not None and not exp['refuse']:
        want = pk.exp_layout(exp)
        if obs != want:
            ctx.violation('C01/%s/layout/differs-%s' % (fn, pk.first_diff(want, obs)),
                          'layout differs from the reference: expected %s observed %s' % (want[:12], obs[:12]), rep)
            return obs
    fields = parse_check(cfg, b)
    if getattr(b, 'stale_final_name', False) and not getattr(ctx, '_c01_fn_noted', False):
        ctx._c01_fn_noted = True
        ctx.note('observation (outside the statement): make_interest(need_final_name=True) returned a name different '
                 'from the name in the wire for cfg %s' % json.dumps(cfg['name']))
    for f in fields:
        ctx.violation('C01/%s/field/%s' % ('parse_interest' if cfg['kind'] == 'interest' else 'parse_data', f),
                      'parse of the emitted wire does not return the caller\'s %s' % f, rep)
    return obs


# ---------------------------------------------------------------- held outputs and parse results (NdnPacketsHold)

class HoldAbort(Exception):
    pass


class HoldWorld:
    """Everything make_* / parse_* returned in one history, kept alive, with a snapshot of what it must read as."""

    def __init__(self, ctx, pool):
        self.ctx, self.pool = ctx, pool
        self.wires, self.objs = [], []

    def make(self, kind, meta):
        rng = self.ctx.rng
        cfg = pk.rand_cfg(rng, kind, maxc=4, big=False)
        cfg['sg'] = rng.choice([dict(pk.NO_SG), dict(pk.NO_SG, kind='hmac', r=32, a=32, st=True, haskl=True, kl=[{'t': 8, 'l': 2}]),
                                dict(pk.NO_SG, kind='syn', r=40, a=rng.randint(0, 40), st=True),
                                dict(pk.NO_SG, kind='ecdsa', r=72, a=-1, st=True, haskl=True, kl=[{'t': 8, 'l': 2}])])
        if kind == 'data':
            cfg['meta'] = {'p': True, 'ct': 1, 'fp': rng.choice([0, 2]), 'fbi': -1} if meta else {'p': False, 'ct': 0, 'fp': 0, 'fbi': -1}
            cfg['content'] = max(cfg['content'], 0)
        else:
            cfg['name'] = [c for c in cfg['name'] if c['t'] != pk.T_PD]
            if not meta:
                cfg.update(cbp=False, mbf=False, nonce=False, life=0, hop=False, fh=[])
        b = pk.build(cfg, rng, self.pool, target=False)
        if b.exc is not None:
            if isinstance(b.exc, MachineryError):
                raise b.exc
            # a plain configuration must be built: report it like stage B/C do and end this history here
            self.ctx.violation('C01/%s/exception/%s' % (fn_of(cfg), type(b.exc).__name__),
                               '%s raised %r for a configuration the reference builds' % (fn_of(cfg), b.exc),
                               {'kind': 'cfg', 'stage': 'hold', 'cfg': cfg})
            raise HoldAbort()
        self.wires.append({'kind': kind, 'raw': b.raw, 'snap': b.wire, 'meta': meta,
                           'fn': getattr(b, 'raw_final_name', None), 'fn_snap': [bytes(c) for c in b.raw_final_name] if kind == 'interest' else None})

    @staticmethod
    def view(kind, res):
        name, par, payload, sp = res
        if kind == 'data':
            pv = (par.content_type, par.freshness_period, None if par.final_block_id is None else bytes(par.final_block_id))
        else:
            pv = (bool(par.can_be_prefix), bool(par.must_be_fresh), par.nonce, par.lifetime, par.hop_limit,
                  [[bytes(c) for c in n] for n in par.forwarding_hint])
        return ([bytes(c) for c in name], pv, None if payload is None else bytes(payload),
                b''.join(bytes(c) for c in (sp.signature_covered_part or [])),
                None if sp.signature_value_buf is None else bytes(sp.signature_value_buf),
                b''.join(bytes(c) for c in (sp.digest_covered_part or [])),
                None if sp.digest_value_buf is None else bytes(sp.digest_value_buf))

    def parse(self, i):
        w = self.wires[i - 1]
        try:
            res = (parse_interest if w['kind'] == 'interest' else parse_data)(w['raw'])
            want = self.view(w['kind'], res)
            if not w['meta']:
                # the wire carries no parameters: the parser's defaults, whatever was done to earlier results
                dflt = (want[1][0] in (0, None), want[1][1], want[1][2]) == (True, None, None) if w['kind'] == 'data' \
                    else want[1] == (False, False, None, None, None, [])
                if not dflt:
                    want = None
            self.objs.append({'kind': w['kind'], 'res': res, 'want': want})
        except Exception:  # noqa: a held wire that no longer parses (it changed) - shows as "not the same" below
            self.objs.append({'kind': w['kind'], 'res': None, 'want': None})

    def edit(self, j):
        """the caller edits the parameter object it was handed (it owns it)"""
        o = self.objs[j - 1]
        if o['res'] is None or o['want'] is None:
            return
        par = o['res'][1]
        name, pv, payload, cov, sv, dcov, dv = o['want']
        if o['kind'] == 'data':
            # fresh values every time: state shared between parse results must show up in every history
            new = (self.ctx.rng.randrange(3, 250), self.ctx.rng.randrange(1000, 10 ** 6), b'\x08\x02' + self.ctx.rng.randbytes(2))
            par.content_type, par.freshness_period, par.final_block_id = new
            pv = new
        else:
            life, hint = self.ctx.rng.randrange(10 ** 4, 10 ** 6), [b'\x08\x03' + self.ctx.rng.randbytes(3)]
            par.can_be_prefix, par.lifetime = not par.can_be_prefix, life
            par.forwarding_hint.append(hint)
            pv = (not pv[0], pv[1], pv[2], life, pv[4], pv[5] + [hint])
        o['want'] = (name, pv, payload, cov, sv, dcov, dv)

    def observe(self):
        ws = [bytes(w['raw']) == w['snap'] and (w['fn'] is None or [bytes(c) for c in w['fn']] == w['fn_snap']) for w in self.wires]
        os_ = []
        for o in self.objs:
            try:
                os_.append(o['res'] is not None and self.view(o['kind'], o['res']) == o['want'])
            except Exception:  # noqa
                os_.append(False)
        return ws, os_


def run_hold_history(ctx, steps, pool):
    w = HoldWorld(ctx, pool)
    ev = []
    for stp in steps:
        if stp[0] == 'Make':
            try:
                w.make(stp[1], bool(stp[2]))
            except HoldAbort:
                break
            e = {'a': 'Make', 'kind': stp[1], 'meta': bool(stp[2])}
        elif stp[0] == 'Parse':
            w.parse(stp[1])
            e = {'a': 'Parse', 'i': stp[1]}
        else:
            w.edit(stp[1])
            e = {'a': 'Edit', 'j': stp[1]}
        e['wsame'], e['osame'] = w.observe()
        ev.append(e)
    return {'ev': ev, 'kinds': [x['kind'] for x in w.wires], 'okinds': [o['kind'] for o in w.objs]}


def judge_hold(ctx, hists, stage):
    rej = pk.judge(ctx, 'NdnPacketsHoldTrace', 'NdnPacketsHoldTrace.cfg', [{'ev': h['ev']} for h in hists], 'c01-hold-' + stage)
    for i, at in rej:
        h = hists[i]
        k = int(str(at).strip() or 0)
        e = h['ev'][k - 1] if 0 < k <= len(h['ev']) else None
        if e is None:
            what, who = 'end', 'x'
        elif not all(e['wsame']):
            j = e['wsame'].index(False)
            what, who = 'returned-wire-changed', 'make_interest' if h['kinds'][j] == 'interest' else 'make_data'
        else:
            j = e['osame'].index(False) if not all(e['osame']) else 0
            what, who = 'parse-result-changed', 'parse_interest' if h['okinds'][j] == 'interest' else 'parse_data'
        ctx.violation('C01/%s/held/%s/after-%s' % (who, what, e['a'] if e else 'end'),
                      'something the library returned earlier and the caller kept no longer reads as it did after a later %s: events %s'
                      % (e['a'] if e else '?', [{k_: v for k_, v in x.items()} for x in h['ev']]),
                      {'kind': 'hold-history', 'steps': [[x['a']] + [x[f] for f in ('kind', 'meta', 'i', 'j') if f in x] for x in h['ev']], 'rejected_at': k})
    return rej


def hold_stage_a(ctx):
    cp = os.path.join(tlc.BUILD, 'NdnPacketsHold.cfg')
    c = {'MaxSteps': ctx.pick(4, 5), 'DevScratch': 'FALSE', 'DevSharedDefault': 'FALSE'}
    tlc.write_cfg(cp, constants=c, invariants=['HeldStable'])
    r = tlc.run('NdnPacketsHold', cp, workers=2, heavy=False)
    ctx.add_tlc('NdnPacketsHold MaxSteps=%d' % c['MaxSteps'], r)
    if r.violated:
        ctx.violation('C01/spec/NdnPacketsHold/%s' % r.violated, 'TLC: %s violated' % r.violated, {'trace': r.errtrace[:2000]})
    for dev in ('DevScratch', 'DevSharedDefault'):
        tlc.write_cfg(cp, constants=dict(c, MaxSteps=4, **{dev: 'TRUE'}), invariants=['HeldStable'])
        if tlc.run('NdnPacketsHold', cp, workers=1, heavy=False).violated != 'HeldStable':
            raise MachineryError('HeldStable does not refute the deviation %s' % dev)


def hold_stage_b(ctx, pool):
    from harness import graph
    cp = os.path.join(tlc.BUILD, 'NdnPacketsHold_g.cfg')
    m = ctx.pick(4, 5)
    tlc.write_cfg(cp, constants={'MaxSteps': m, 'DevScratch': 'FALSE', 'DevSharedDefault': 'FALSE'}, invariants=['HeldStable'])
    g = graph.dump('NdnPacketsHold', cp, workers=2)
    ctx.add_tlc('NdnPacketsHold graph MaxSteps=%d (%d edges)' % (m, g.n_edges), g.tlc)
    paths = graph.edge_cover_paths(g, max_len=m)
    hists = []
    for init, path in paths:
        steps = [(a,) + tuple(args) for a, args, _ in path]
        hists.append(run_hold_history(ctx, steps, pool))
        ctx.traces += 1
        ctx.evaluations += len(steps)
        if len(steps) >= 3:
            ctx.nt(['B-hold', steps])
    rej = judge_hold(ctx, hists, 'B')
    ctx.note('B: %d cover paths of the hold graph (%d states, %d edges) replayed with everything kept alive, %d rejected' % (
        len(paths), len(g.state), g.n_edges, len(rej)))


def hold_stage_c(ctx, pool):
    hists = []
    for _ in range(ctx.pick(40, 1500)):
        steps, nw, no, edited = [], 0, 0, set()
        for _ in range(ctx.rng.randint(4, ctx.pick(10, 24))):
            x = ctx.rng.random()
            if nw == 0 or x < 0.4:
                steps.append(('Make', ctx.rng.choice(['data', 'interest']), ctx.rng.random() < 0.5))
                nw += 1
            elif no == 0 or x < 0.75 or len(edited) == no:
                steps.append(('Parse', ctx.rng.randint(1, nw)))
                no += 1
            else:
                j = ctx.rng.choice([k for k in range(1, no + 1) if k not in edited])
                edited.add(j)
                steps.append(('Edit', j))
        hists.append(run_hold_history(ctx, steps, pool))
        ctx.traces += 1
        ctx.evaluations += len(steps)
        ctx.nt(['C-hold', steps])
    rej = judge_hold(ctx, hists, 'C')
    ctx.note('C: %d random hold histories judged by TLC, %d rejected' % (len(hists), len(rej)))


def run(ctx):
    ctx.rule = ('A: laws on every enumerated configuration; B: one real make_*/parse_* execution per configuration '
                'TLC enumerates, layout compared entry by entry; C: random/swept configurations judged by TLC. '
                'non-trivial = distinct configuration whose signature is shorter than its reserve, or whose outer or '
                'payload length is 252/253/254/65535/65536/65537, or whose Interest name carries its own params digest, '
                'or that pins a name-valued parameter to a representation other than a list of encoded components')
    ctx.assumptions = ['strict TLV reader (harness/strict_tlv.py) is the projection from bytes to the element tree',
                       'PyCryptodome primitives; ECDSA signatures re-drawn until the enumerated DER length occurs']
    scale = ctx.pick(1, 2)
    pool = pk.Pool(ctx.rng)
    if 'A' in ctx.stages:
        cfgp = os.path.join(tlc.BUILD, 'NdnPacketsMC_%s.cfg' % ctx.tier)
        tlc.write_cfg(cfgp, constants={'Scale': scale}, invariants=INVS)
        r = tlc.run('NdnPacketsMC', cfgp, workers=ctx.pick(4, int(os.environ.get('VERIF_WORKERS', '16'))))
        ctx.add_tlc('NdnPacketsMC Scale=%d' % scale, r)
        if r.violated:
            ctx.violation('C01/spec/%s' % r.violated, 'TLC: %s violated in NdnPacketsMC' % r.violated, {'trace': r.errtrace})
        # vacuity: each action's guard is a predicate of cfg alone, so "action taken" = "a configuration with that
        # guard exists"; those and the situations the laws talk about are evaluated once over CfgSpace
        # (-coverage on this spec costs 30 s for the same information)
        wp = os.path.join(tlc.BUILD, 'NdnPacketsWit_%s.cfg' % ctx.tier)
        tlc.write_cfg(wp, spec=None, constants={'Scale': scale})
        rw = tlc.run('NdnPacketsWit', wp, workers=1, heavy=False)
        m = re.search(r'<<\s*"WITNESSES",\s*(\[.*?\])\s*>>', rw.out, re.S)
        if not m:
            raise MachineryError('NdnPacketsWit printed no witness table')
        wit = tlaval.parse(m.group(1))
        missing = [k for k, v in wit.items() if v is not True]
        if missing or len(wit) < 10:
            raise MachineryError('vacuous: situations not in the configuration space: %s' % missing)
        ctx.note('A: witnesses reachable: %s' % ', '.join(sorted(wit)))
        hold_stage_a(ctx)
    if 'B' in ctx.stages:
        lines, r = pk.gen(ctx, scale, 'c01')
        ctx.note('B: TLC enumerated %d configurations' % len(lines))
        refused = 0
        for ln in lines:
            cfg, exp = ln['cfg'], ln['exp']
            b = pk.build(cfg, ctx.rng, pool)
            obs = check_built(ctx, cfg, exp, b, 'B')
            refused += exp['refuse']
            ctx.traces += 1
            ctx.evaluations += 1
            if exp['refuse'] or nontrivial(cfg, obs):
                ctx.nt(['B', cfg])
            ctx.sample({'kind': 'B-config', 'cfg': cfg, 'expected_layout': exp['lay'][:6]}, limit=2)
        ctx.note('B: %d built, %d expected refusals' % (len(lines) - refused, refused))
        hold_stage_b(ctx, pool)
    if 'C' in ctx.stages:
        recs = []
        n = ctx.pick(2500, 40000)
        for i in range(n):
            cfg = pk.rand_cfg(ctx.rng)
            recs.append(record(ctx, cfg, pool, name_form=ctx.rng.choice(['list', 'list', 'wire'])))
        if not ctx.quick:
            for base in sweep_bases():
                for ln in range(0, 70001):
                    cfg = json.loads(json.dumps(base))
                    cfg['app' if cfg['kind'] == 'interest' else 'content'] = ln
                    if cfg['sg']['kind'] == 'syn':
                        cfg['sg']['a'] = ctx.rng.randint(0, cfg['sg']['r'])
                    recs.append(record(ctx, cfg, pool))
        else:
            for base in sweep_bases():
                for ln in list(range(0, 600)) + list(range(65000, 65800)):
                    cfg = json.loads(json.dumps(base))
                    cfg['app' if cfg['kind'] == 'interest' else 'content'] = ln
                    if cfg['sg']['kind'] == 'syn':
                        cfg['sg']['a'] = ctx.rng.randint(0, cfg['sg']['r'])
                    recs.append(record(ctx, cfg, pool))
        ctx.sample({'kind': 'C-record', 'cfg': recs[0]['cfg'], 'layout': recs[0]['lay'][:6]})
        rejected = pk.judge(ctx, 'NdnPacketsTrace', 'NdnPacketsTrace.cfg', recs, 'c01-traces')
        ctx.traces += len(recs)
        ctx.evaluations += len(recs)
        ctx.note('C: %d recorded calls judged by TLC, %d rejected' % (len(recs), len(rejected)))
        hold_stage_c(ctx, pool)
        for i, code in rejected:
            rec = recs[i]
            what = {'2': 'exception', '3': 'layout/differs', '4': 'layout/not-well-tiled'}.get(str(code).strip(), 'clause-%s' % code)
            ctx.violation('C01/%s/trace/%s' % (fn_of(rec['cfg']), what),
                          'recorded call rejected by NdnPacketsTrace (clause %s): cfg %s' % (code, json.dumps(rec['cfg'])[:600]),
                          {'kind': 'trace', 'rec': rec, 'code': code})


def sweep_bases():
    d = {'kind': 'data', 'name': [{'t': 8, 'l': 3}, {'t': 50, 'l': 1}], 'cbp': False, 'mbf': False, 'fh': [], 'nonce': False,
         'life': 0, 'hop': False, 'app': -1, 'meta': {'p': True, 'ct': 1, 'fp': 2, 'fbi': -1}, 'content': 0,
         'sg': dict(pk.NO_SG), 'vp': False}
    i = json.loads(json.dumps(d))
    i.update(kind='interest', meta={'p': False, 'ct': 0, 'fp': 0, 'fbi': -1}, content=-1, nonce=True, life=2)
    i['sg'] = dict(pk.NO_SG, kind='syn', r=72, a=70, st=True, haskl=True, kl=[{'t': 8, 'l': 1}, {'t': 8, 'l': 3}])
    h = json.loads(json.dumps(d))
    h['sg'] = dict(pk.NO_SG, kind='hmac', r=32, a=32, st=True, haskl=True, kl=[{'t': 8, 'l': 4}])
    return [d, i, h]


def record(ctx, cfg, pool, name_form='list'):
    """Stage C: run the real code on cfg, harness-check fields, return the record TLC will judge."""
    b = pk.build(cfg, ctx.rng, pool, target=False, name_form=name_form)
    if b.rec is not None and b.rec.actual is not None and cfg['sg']['kind'] == 'ecdsa':
        cfg['sg']['a'] = b.rec.actual
    if cfg['sg']['a'] < 0:
        cfg['sg']['a'] = cfg['sg']['r']    # signer never ran (refused earlier)
    obs = check_built(ctx, cfg, None, b, 'C')
    if b.exc is not None or nontrivial(cfg, obs):
        ctx.nt(['C', cfg])
    return {'cfg': cfg, 'chk': ['lay'], 'refused': b.exc is not None, 'lay': pk.lay_json(obs or []), 'forms': b.forms}


def replay(ctx, path):
    with open(path) as f:
        obj = json.load(f)
    pool = pk.Pool(ctx.rng)
    if obj.get('kind') == 'hold-history':
        h = run_hold_history(ctx, [tuple(x) for x in obj['steps']], pool)
        for e in h['ev']:
            print(e)
        rej = judge_hold(ctx, [h], 'replay')
        for v in ctx.violations:
            print('reproduced:', v['sig'])
        return 1 if ctx.violations else 0
    if obj.get('kind') == 'trace':
        rec = obj['rec']
        rej = pk.judge(ctx, 'NdnPacketsTrace', 'NdnPacketsTrace.cfg', [rec], 'c01-replay')
        print('recorded call:', 'rejected %s' % rej if rej else 'accepted')
        cfg = rec['cfg']
    else:
        cfg = obj['cfg']
    if obj.get('forms') or obj.get('rec', {}).get('forms'):
        cfg = dict(cfg, rep=obj.get('forms') or obj['rec']['forms'])       # the representations the failing run used (rotated where cfg left them open)
    b = pk.build(cfg, ctx.rng, pool, target=cfg['sg']['kind'] == 'ecdsa')
    print('cfg:', json.dumps(cfg))
    if b.exc is not None:
        print('raised:', repr(b.exc))
    else:
        print('wire (%d bytes): %s%s' % (len(b.wire), b.wire[:80].hex(), '...' if len(b.wire) > 80 else ''))
        try:
            print('layout:', pk.layout(b.wire)[:20])
        except st.TlvError as e:
            print('malformed:', e)
    before = len(ctx.violations)
    check_built(ctx, cfg, None, b, 'replay')
    for v in ctx.violations[before:]:
        print('reproduced:', v['sig'], '-', v['what'][:300])
    return 1 if len(ctx.violations) > before else 0
