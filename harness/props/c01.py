"""C01 - Interest/Data encode -> decode round trip. Spec: NdnPackets.tla (+Cfg, MC, Gen, Trace).

A  TLC checks the layout laws (one exactly-tiled element, imperative shrink = declarative tree,
   fields found again in packet-format order, ranges nested, regions/edit verdicts consistent)
   on every configuration of NdnPacketsCfg!CfgSpace; vacuity witnesses must be reachable.
B  TLC (NdnPacketsGen) enumerates the same configurations with the expected element layout; each is
   built with the real make_interest / make_data and real signers, the wire is projected by the
   strict TLV reader and compared entry by entry (type, offset, header size, length); then
   parse_interest / parse_data must return the caller's fields.
C  random configurations beyond the alphabet (<= 8 components of any type/length, <= 3 hint names,
   payloads <= 70 000, P-256/384/521 ECDSA with whatever length comes out, synthetic signers with
   any reserve/actual) and - thorough - every payload length 0..70 000 for three configurations are
   recorded as {cfg, observed layout} and judged by TLC (NdnPacketsTrace); field equality is
   compared by the harness (payload bytes never enter TLA+).
"""
import json, os, re

from harness import tlc, tlaval, pktkit as pk, strict_tlv as st
from harness.tlc import MachineryError
from ndn.encoding import parse_interest, parse_data

INVS = ['TypeOK', 'InvBuffer', 'InvMade', 'InvRefused']
BND = set(pk.BND)


def signed(cfg):
    return cfg['sg']['kind'] != 'none'


def fn_of(cfg):
    return 'make_interest' if cfg['kind'] == 'interest' else 'make_data'


def parse_check(cfg, b):
    """Compare what parse_* returns with what the caller passed. Returns list of differing field names."""
    bad = []
    wire = b.wire
    if cfg['kind'] == 'interest':
        try:
            name, par, app, sp = parse_interest(wire)
        except Exception as e:  # noqa
            return ['exception-' + type(e).__name__]
        pname = [bytes(c) for c in name]
        need = cfg['app'] >= 0 or signed(cfg)
        pd = [i for i, c in enumerate(cfg['name']) if c['t'] == pk.T_PD]
        if need and not pd:
            ok = pname[:-1] == b.comps and len(pname) == len(b.comps) + 1 and \
                len(pname[-1]) == 34 and pname[-1][:2] == b'\x02\x20'
        elif need:
            ok = len(pname) == len(b.comps) and all(p == g for k, (p, g) in enumerate(zip(pname, b.comps)) if k != pd[0]) \
                and len(pname[pd[0]]) == 34 and pname[pd[0]][:2] == b'\x02\x20'
        else:
            ok = pname == b.comps
        if not ok:
            bad.append('name')
        if b.final_name != pname:
            # Not part of C01's statement (which speaks about parsing the wire): with a caller-supplied
            # ParametersSha256Digest placeholder, need_final_name returns the caller's stale component
            # instead of the digest written to the wire. Recorded as an observation only.
            b.stale_final_name = True
        if bool(par.can_be_prefix) != cfg['cbp']:
            bad.append('can_be_prefix')
        if bool(par.must_be_fresh) != cfg['mbf']:
            bad.append('must_be_fresh')
        if par.nonce != b.param.nonce:
            bad.append('nonce')
        if par.lifetime != b.param.lifetime:
            bad.append('lifetime')
        if par.hop_limit != b.param.hop_limit:
            bad.append('hop_limit')
        if [[bytes(c) for c in n] for n in (par.forwarding_hint or [])] != b.fh:
            bad.append('forwarding_hint')
        if need:
            if app is None or bytes(app) != (b.payload or b''):
                bad.append('application_parameters')
        elif app is not None:
            bad.append('application_parameters')
    else:
        try:
            name, meta, content, sp = parse_data(wire)
        except Exception as e:  # noqa
            return ['exception-' + type(e).__name__]
        if [bytes(c) for c in name] != b.comps:
            bad.append('name')
        want = b.meta_in or (0, None, None)     # absent MetaInfo = default MetaInfo (ContentType BLOB = 0)
        got = (meta.content_type, meta.freshness_period, meta.final_block_id)
        if (want[0] or 0) != (got[0] or 0):
            bad.append('content_type')
        if want[1] != got[1]:
            bad.append('freshness_period')
        if (None if want[2] is None else bytes(want[2])) != (None if got[2] is None else bytes(got[2])):
            bad.append('final_block_id')
        if (b.payload is None) != (content is None) or (content is not None and bytes(content) != b.payload):
            bad.append('content')
    if signed(cfg) != (sp.signature_info is not None):
        bad.append('signature_info')
    if signed(cfg) and (sp.signature_value_buf is None or len(sp.signature_value_buf) != b.rec.actual):
        bad.append('signature_value')
    return bad


def nontrivial(cfg, lay):
    sg = cfg['sg']
    if sg['a'] < sg['r']:
        return True
    if lay and (lay[0][4] in BND):
        return True
    if cfg['app'] in BND or cfg['content'] in BND:
        return True
    return any(c['t'] == pk.T_PD for c in cfg['name']) and cfg['kind'] == 'interest'


def check_built(ctx, cfg, exp, b, stage):
    """exp: TLC's expectation (stage B) or None (stage C: TLC judges the layout afterwards).
    Returns the observed layout or None."""
    fn = fn_of(cfg)
    rep = {'kind': 'cfg', 'stage': stage, 'cfg': cfg}
    refuse_ok = exp['refuse'] if exp is not None else None
    if b.exc is not None:
        if isinstance(b.exc, MachineryError):
            raise b.exc
        if refuse_ok is False or not isinstance(b.exc, (ValueError, TypeError)):
            ctx.violation('C01/%s/exception/%s' % (fn, type(b.exc).__name__),
                          '%s raised %r for a configuration the reference builds' % (fn, b.exc), rep)
        return None
    try:
        obs = pk.layout(b.wire)
    except st.TlvError as e:
        ctx.violation('C01/%s/layout/malformed-%s' % (fn, e.reason),
                      '%s emitted a wire that is not one well-formed TLV element: %s' % (fn, e), rep)
        return None
    if len([e for e in obs if e[0] == 0]) != 1 or obs[0][1] != (5 if cfg['kind'] == 'interest' else 6):
        ctx.violation('C01/%s/layout/not-one-element' % fn, 'wire is not exactly one element of the packet type', rep)
        return None
    if exp is not None and not exp['refuse']:
        want = pk.exp_layout(exp)
        if obs != want:
            ctx.violation('C01/%s/layout/differs-%s' % (fn, pk.first_diff(want, obs)),
                          'layout differs from the reference: expected %s observed %s' % (want[:12], obs[:12]), rep)
            return obs
    fields = parse_check(cfg, b)
    if getattr(b, 'stale_final_name', False) and not getattr(ctx, '_c01_fn_noted', False):
        ctx._c01_fn_noted = True
        ctx.note('observation (outside the statement): make_interest(need_final_name=True) returned a name different '
                 'from the name in the wire for cfg %s' % json.dumps(cfg['name']))
    for f in fields:
        ctx.violation('C01/%s/field/%s' % ('parse_interest' if cfg['kind'] == 'interest' else 'parse_data', f),
                      'parse of the emitted wire does not return the caller\'s %s' % f, rep)
    return obs


def run(ctx):
    ctx.rule = ('A: laws on every enumerated configuration; B: one real make_*/parse_* execution per configuration '
                'TLC enumerates, layout compared entry by entry; C: random/swept configurations judged by TLC. '
                'non-trivial = distinct configuration whose signature is shorter than its reserve, or whose outer or '
                'payload length is 252/253/254/65535/65536/65537, or whose Interest name carries its own params digest')
    ctx.assumptions = ['strict TLV reader (harness/strict_tlv.py) is the projection from bytes to the element tree',
                       'PyCryptodome primitives; ECDSA signatures re-drawn until the enumerated DER length occurs']
    scale = ctx.pick(1, 2)
    pool = pk.Pool(ctx.rng)
    if 'A' in ctx.stages:
        cfgp = os.path.join(tlc.BUILD, 'NdnPacketsMC_%s.cfg' % ctx.tier)
        tlc.write_cfg(cfgp, constants={'Scale': scale}, invariants=INVS)
        r = tlc.run('NdnPacketsMC', cfgp, workers=ctx.pick(4, int(os.environ.get('VERIF_WORKERS', '16'))))
        ctx.add_tlc('NdnPacketsMC Scale=%d' % scale, r)
        if r.violated:
            ctx.violation('C01/spec/%s' % r.violated, 'TLC: %s violated in NdnPacketsMC' % r.violated, {'trace': r.errtrace})
        # vacuity: each action's guard is a predicate of cfg alone, so "action taken" = "a configuration with that
        # guard exists"; those and the situations the laws talk about are evaluated once over CfgSpace
        # (-coverage on this spec costs 30 s for the same information)
        wp = os.path.join(tlc.BUILD, 'NdnPacketsWit_%s.cfg' % ctx.tier)
        tlc.write_cfg(wp, spec=None, constants={'Scale': scale})
        rw = tlc.run('NdnPacketsWit', wp, workers=1, heavy=False)
        m = re.search(r'<<\s*"WITNESSES",\s*(\[.*?\])\s*>>', rw.out, re.S)
        if not m:
            raise MachineryError('NdnPacketsWit printed no witness table')
        wit = tlaval.parse(m.group(1))
        missing = [k for k, v in wit.items() if v is not True]
        if missing or len(wit) < 10:
            raise MachineryError('vacuous: situations not in the configuration space: %s' % missing)
        ctx.note('A: witnesses reachable: %s' % ', '.join(sorted(wit)))
    if 'B' in ctx.stages:
        lines, r = pk.gen(ctx, scale, 'c01')
        ctx.note('B: TLC enumerated %d configurations' % len(lines))
        refused = 0
        for ln in lines:
            cfg, exp = ln['cfg'], ln['exp']
            b = pk.build(cfg, ctx.rng, pool)
            obs = check_built(ctx, cfg, exp, b, 'B')
            refused += exp['refuse']
            ctx.traces += 1
            ctx.evaluations += 1
            if exp['refuse'] or nontrivial(cfg, obs):
                ctx.nt(['B', cfg])
            ctx.sample({'kind': 'B-config', 'cfg': cfg, 'expected_layout': exp['lay'][:6]}, limit=2)
        ctx.note('B: %d built, %d expected refusals' % (len(lines) - refused, refused))
    if 'C' in ctx.stages:
        recs = []
        n = ctx.pick(2500, 40000)
        for i in range(n):
            cfg = pk.rand_cfg(ctx.rng)
            recs.append(record(ctx, cfg, pool, name_form=ctx.rng.choice(['list', 'list', 'wire'])))
        if not ctx.quick:
            for base in sweep_bases():
                for ln in range(0, 70001):
                    cfg = json.loads(json.dumps(base))
                    cfg['app' if cfg['kind'] == 'interest' else 'content'] = ln
                    if cfg['sg']['kind'] == 'syn':
                        cfg['sg']['a'] = ctx.rng.randint(0, cfg['sg']['r'])
                    recs.append(record(ctx, cfg, pool))
        else:
            for base in sweep_bases():
                for ln in list(range(0, 600)) + list(range(65000, 65800)):
                    cfg = json.loads(json.dumps(base))
                    cfg['app' if cfg['kind'] == 'interest' else 'content'] = ln
                    if cfg['sg']['kind'] == 'syn':
                        cfg['sg']['a'] = ctx.rng.randint(0, cfg['sg']['r'])
                    recs.append(record(ctx, cfg, pool))
        ctx.sample({'kind': 'C-record', 'cfg': recs[0]['cfg'], 'layout': recs[0]['lay'][:6]})
        rejected = pk.judge(ctx, 'NdnPacketsTrace', 'NdnPacketsTrace.cfg', recs, 'c01-traces')
        ctx.traces += len(recs)
        ctx.evaluations += len(recs)
        ctx.note('C: %d recorded calls judged by TLC, %d rejected' % (len(recs), len(rejected)))
        for i, code in rejected:
            rec = recs[i]
            what = {'2': 'exception', '3': 'layout/differs', '4': 'layout/not-well-tiled'}.get(str(code).strip(), 'clause-%s' % code)
            ctx.violation('C01/%s/trace/%s' % (fn_of(rec['cfg']), what),
                          'recorded call rejected by NdnPacketsTrace (clause %s): cfg %s' % (code, json.dumps(rec['cfg'])[:600]),
                          {'kind': 'trace', 'rec': rec, 'code': code})


def sweep_bases():
    d = {'kind': 'data', 'name': [{'t': 8, 'l': 3}, {'t': 50, 'l': 1}], 'cbp': False, 'mbf': False, 'fh': [], 'nonce': False,
         'life': 0, 'hop': False, 'app': -1, 'meta': {'p': True, 'ct': 1, 'fp': 2, 'fbi': -1}, 'content': 0,
         'sg': dict(pk.NO_SG), 'vp': False}
    i = json.loads(json.dumps(d))
    i.update(kind='interest', meta={'p': False, 'ct': 0, 'fp': 0, 'fbi': -1}, content=-1, nonce=True, life=2)
    i['sg'] = dict(pk.NO_SG, kind='syn', r=72, a=70, st=True, haskl=True, kl=[{'t': 8, 'l': 1}, {'t': 8, 'l': 3}])
    h = json.loads(json.dumps(d))
    h['sg'] = dict(pk.NO_SG, kind='hmac', r=32, a=32, st=True, haskl=True, kl=[{'t': 8, 'l': 4}])
    return [d, i, h]


def record(ctx, cfg, pool, name_form='list'):
    """Stage C: run the real code on cfg, harness-check fields, return the record TLC will judge."""
    b = pk.build(cfg, ctx.rng, pool, target=False, name_form=name_form)
    if b.rec is not None and b.rec.actual is not None and cfg['sg']['kind'] == 'ecdsa':
        cfg['sg']['a'] = b.rec.actual
    if cfg['sg']['a'] < 0:
        cfg['sg']['a'] = cfg['sg']['r']    # signer never ran (refused earlier)
    obs = check_built(ctx, cfg, None, b, 'C')
    if b.exc is not None or nontrivial(cfg, obs):
        ctx.nt(['C', cfg])
    return {'cfg': cfg, 'chk': ['lay'], 'refused': b.exc is not None, 'lay': pk.lay_json(obs or [])}


def replay(ctx, path):
    with open(path) as f:
        obj = json.load(f)
    pool = pk.Pool(ctx.rng)
    if obj.get('kind') == 'trace':
        rec = obj['rec']
        rej = pk.judge(ctx, 'NdnPacketsTrace', 'NdnPacketsTrace.cfg', [rec], 'c01-replay')
        print('recorded call:', 'rejected %s' % rej if rej else 'accepted')
        cfg = rec['cfg']
    else:
        cfg = obj['cfg']
    b = pk.build(cfg, ctx.rng, pool, target=cfg['sg']['kind'] == 'ecdsa')
    print('cfg:', json.dumps(cfg))
    if b.exc is not None:
        print('raised:', repr(b.exc))
    else:
        print('wire (%d bytes): %s%s' % (len(b.wire), b.wire[:80].hex(), '...' if len(b.wire) > 80 else ''))
        try:
            print('layout:', pk.layout(b.wire)[:20])
        except st.TlvError as e:
            print('malformed:', e)
    before = len(ctx.violations)
    check_built(ctx, cfg, None, b, 'replay')
    for v in ctx.violations[before:]:
        print('reproduced:', v['sig'], '-', v['what'][:300])
    return 1 if len(ctx.violations) > before else 0
