"""X01 (not one of the listed properties, not in MANIFEST.json): connection life cycle of NDNApp.main_loop.
Spec: AppLife.tla; see harness/lifecheck.py.  `bin/check X01`."""
import json
from harness import lifecheck


def run(ctx):
    ctx.rule = ('A: TLC exhaustive on AppLife (both front-ends) incl. liveness and witnesses; B: transition cover + random '
                'walks of the AppLife graph replayed into the real front-end, all observable variables compared after '
                'every action. non-trivial = path with OpenOk and a Down/AfterRaise and >=4 actions')
    ctx.assumptions = ['virtual-time loop faithful to asyncio', 'handler tables read from the private tries']
    if 'A' in ctx.stages:
        lifecheck.stage_a(ctx, ctx.quick)
    if 'B' in ctx.stages:
        lifecheck.stage_b(ctx, 'X01', ctx.quick)


def replay(ctx, path):
    with open(path) as f:
        return lifecheck.replay(ctx, json.load(f))
