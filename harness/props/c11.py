"""C11 - a compiled trust schema matches exactly the names its source text describes.

Spec: Lvs.tla (source meaning), LvsTree.tla (binary model; Checker._match as a state machine),
      LvsEnum.tla (TLC-enumerated inputs), LvsJudge.tla (judge of recorded results).

A  TLC: (1) the _match state machine on every small sane tree x name x carried context: its yields equal
   the recursive walk (WalkEqualsRec, YieldsSound), bindings are undone, it terminates; vacuity witnesses.
   (2) laws of the source reference on the exhaustive small-schema family (digest ignored, deviation
   flags change nothing outside their territory, witnesses).
B  spec -> code: TLC enumerates the small-schema family with Match for every name, and the small sane
   trees with the walk result for every name; the harness renders / builds them, runs the real
   compile_lvs + Checker.match (directly and after save/load) and compares.
C  code -> spec: seeded generator of well-formed schemas (lvskit.Gen; among its shapes: constraints of a rule on a
   named pattern that only a rule referring to it contains, inherited through the reference; a definition written
   like one chain of another rule); real results for all names up to length L over
   an alphabet with every literal + fresh components; TLC judges the three-way equality
   Lvs!Match = LvsTree!TreeMatch(compiled model) = recorded (direct and reloaded).
Histories (B and C): the checkers are long-lived objects.  Before the enumerations that are compared, the same
   objects serve enumerations consumed in other ways (cut short after k results and closed / dropped / kept
   suspended, aborted by a user function that raises, suspended while other enumerations run), and further
   checkers over the same model are constructed meanwhile whose function dictionaries give the schema's
   function identifiers other meanings (Lvs!Retab).  Every enumeration is judged (LvsJudge!JEvent).
"""
import json, os

from harness import tlc, lvskit as K
from harness.tlaval import to_json, seq

WALK_INVS = ['WalkEqualsRec', 'ContextRestored', 'StackShape']
WALK_ACTS = ['StepStart', 'StepYield', 'StepValueHit', 'StepValueMiss', 'StepPatternSkip', 'StepPatternTake', 'StepExhausted']


def walk_cfg(path, maxnodes, maxlen, corrupt='none', count=True, dev=False, invariants=(), properties=()):
    return tlc.write_cfg(path, spec='WSpec', constants={
        'MaxNodes': maxnodes, 'MaxLen': maxlen, 'Corrupt': '"%s"' % corrupt,
        'CountSteps': 'TRUE' if count else 'FALSE', 'DevPrebound': 'TRUE' if dev else 'FALSE'},
        invariants=invariants, properties=properties)


def enum_run(ctx, mode, stride, procs, maxnodes=3, maxlen=3, corrupt='none', tag='', fs=3):
    """Run LvsEnum in `procs` processes (interleaved shards). Returns (names, [printed tuples])."""
    from concurrent.futures import ThreadPoolExecutor
    off0 = ctx.seed % stride
    fs = min(stride, fs)           # focus shapes (LvsEnum!FocusW) are sampled every (fs * weight)-th instead of every stride-th

    def one(j):
        cfg = K.scratch('LvsEnum_%s_%s%s_%d.cfg' % (ctx.prop, mode, tag, j))
        tlc.write_cfg(cfg, spec=None, init='EInit', next_='ENext', constants={
            'MaxNodes': maxnodes, 'MaxLen': maxlen, 'Corrupt': '"%s"' % corrupt, 'CountSteps': 'FALSE',
            'DevPrebound': 'FALSE', 'Mode': '"%s"' % mode, 'Stride': stride * procs, 'Offset': off0 + j * stride,
            'FocusStride': fs * procs, 'FocusOffset': ctx.seed % fs + j * fs})
        return tlc.run('LvsEnum', cfg, workers=1, heavy=False, tag='lvse', timeout=3000)
    with ThreadPoolExecutor(procs) as ex:
        rs = list(ex.map(one, range(procs)))
    agg = tlc.TlcResult()
    items, names = [], None
    for r in rs:
        agg.distinct += r.distinct
        agg.generated += r.generated
        agg.wall = max(agg.wall, r.wall)
        for mk in ('E', 'W', 'T', 'L'):
            items += K.parse_prints(r.out, mk)
        nm = K.parse_prints(r.out, 'NAMES')
        names = [list(n) for n in nm[0][1]]
    ctx.add_tlc('LvsEnum mode=%s stride=%d (%d inputs)' % (mode, stride, len(items)), agg)
    if not items:
        raise tlc.MachineryError('LvsEnum mode=%s produced no input' % mode)
    return names, items


def recset(lst):
    return frozenset((e['rule'], frozenset((k, v) for k, v in e['ctx'])) for e in lst)


def expset(v):
    return frozenset((r, frozenset((k, c) for k, c in cx)) for r, cx in v)


# ------------------------------------------------------------------ real model from a spec tree (stage B)

def model_from_tree(t):
    """LvsTree model value (parsed TLA record, or its JSON form) -> ndn LvsModel object."""
    from ndn.app_support.light_versec import binary as bny

    def seq(v):
        return list(v) if isinstance(v, (list, tuple)) else [v[k] for k in sorted(v)]

    def opt(o):
        x = bny.ConstraintOption()
        if o['hv']:
            x.value = K.comp(o['v'])
        if o['ht']:
            x.tag = o['tag']
        if o['hf']:
            x.fn = bny.UserFnCall()
            x.fn.fn_id = o['fn']
            x.fn.args = []
            for a in seq(o['args']):
                y = bny.UserFnArg()
                if a['hv']:
                    y.value = K.comp(a['v'])
                if a['ht']:
                    y.tag = a['tag']
                x.fn.args.append(y)
        return x
    m = bny.LvsModel()
    m.version = t['version'] if t['hver'] else None
    m.start_id = t['start'] if t['hstart'] else None
    m.named_pattern_cnt = t['npc']
    m.nodes = []
    for nd in seq(t['nodes']):
        n = bny.Node()
        n.id = nd['id'] if nd['hid'] else None
        n.parent = nd['parent'] if nd['hp'] else None
        n.rule_name = list(seq(nd['rules']))
        n.v_edges, n.p_edges = [], []
        for e in seq(nd['v']):
            ve = bny.ValueEdge()
            ve.dest = e['dest'] if e['hd'] else None
            ve.value = K.comp(e['val']) if e['hv'] else None
            n.v_edges.append(ve)
        for e in seq(nd['p']):
            pe = bny.PatternEdge()
            pe.dest = e['dest'] if e['hd'] else None
            pe.tag = e['tag'] if e['ht'] else None
            pe.cons_sets = []
            for c in seq(e['cons']):
                pc = bny.PatternConstraint()
                pc.options = [opt(o) for o in seq(c)]
                pe.cons_sets.append(pc)
            n.p_edges.append(pe)
        n.sign_cons = list(seq(nd['sign']))
        m.nodes.append(n)
    m.symbols = []
    return m


TREE_TAB = {'$eq': '$ne'}          # = LvsEnum!EnumTab


def ctxdict(v):
    """a TLA function tag -> component as printed by TLC (a function on 1..n prints as a tuple)."""
    if isinstance(v, dict):
        return dict(v)
    return {i + 1: x for i, x in enumerate(v)}


def decode_nodes(raw):
    """Checker.match on a tree without rule names: results are '#_<node>' -> (node, ctx by tag)."""
    out = set()
    for rules, cx in raw:
        for rn in rules:
            out.add((int(rn[2:]), frozenset((int(k), K.comp_str(v)) for k, v in cx.items())))
    return 'ok', frozenset(out)


# ------------------------------------------------------------------ histories (operations for lvskit.History)

def take_end(i):
    return ('close', 'drop', 'keep')[i % 3]


def ops_first_partial(hits, ncks):
    """stage B: every name that has a match is first asked for by a caller that stops after one result, on every
    checker (the ways of abandoning the generator alternate)"""
    return [{'a': 'enum', 'ck': c, 'ni': ni, 'mode': 'take', 'k': 1, 'end': take_end(ni + c)}
            for ni in hits for c in range(1, ncks + 1)]


def ops_random(rng, rules, scout, nops, nextra):
    """stage C: a random history.  scout: {ni: (items delivered, user function calls, rule matches)} as seen by a checker that
    is not part of the history (so that the first enumeration of a name on a checker can be a partial one)."""
    hits = sorted(ni for ni, (ny, nc, nr) in scout.items() if nr >= 1)
    multi = [ni for ni in hits if scout[ni][0] >= 2]
    calls = [ni for ni in hits if scout[ni][1] >= 1] or [ni for ni in sorted(scout) if scout[ni][1] >= 1]
    allni = sorted(scout)
    ncks = [2]

    def pick_ni():
        x = rng.random()
        if multi and x < 0.55:
            return rng.choice(multi)
        if calls and x < 0.75:
            return rng.choice(calls)
        if hits and x < 0.92:
            return rng.choice(hits)
        return rng.choice(allni)

    def enum_op(depth=0):
        ni = pick_ni()
        ny, nc, _ = scout[ni]
        c = rng.randint(1, ncks[0])
        x = rng.random()
        if x < 0.45 or depth:
            if depth and rng.random() < 0.5:
                return {'a': 'enum', 'ck': c, 'ni': ni, 'mode': 'full'}
            k = rng.randint(1, max(1, ny - 1)) if rng.random() < 0.8 else ny + rng.choice([0, 1])
            return {'a': 'enum', 'ck': c, 'ni': ni, 'mode': 'take', 'k': max(1, k), 'end': take_end(rng.randrange(3))}
        if x < 0.70 and nc:
            return {'a': 'enum', 'ck': c, 'ni': ni, 'mode': 'abort', 'k': rng.randint(1, nc)}
        if x < 0.90:
            inner = []
            for _ in range(rng.choice([1, 1, 2])):
                op = enum_op(depth + 1)
                if rng.random() < 0.6:
                    op['ni'] = ni                       # the same name once more while the first enumeration is suspended
                if rng.random() < 0.6:
                    op['ck'] = c                        # ... on the same object
                inner.append(op)
            return {'a': 'enum', 'ck': c, 'ni': ni, 'mode': 'nested', 'k': rng.randint(1, max(1, ny - 1)), 'inner': inner}
        return {'a': 'enum', 'ck': c, 'ni': ni, 'mode': 'full'}

    newat = sorted(rng.randrange(0, max(1, nops * 2 // 3)) for _ in range(nextra))
    ops = []
    for i in range(nops):
        while newat and newat[0] <= i:
            newat.pop(0)
            ops.append({'a': 'new', 'tab': K.other_tab(rules, rng), 'via': rng.choice(['direct', 'load'])})
            ncks[0] += 1
            # the new checker is asked at once (its own table decides), then the older ones again
            for ni in rng.sample(hits, min(3, len(hits))) + rng.sample(allni, min(3, len(allni))):
                ops.append({'a': 'enum', 'ck': ncks[0], 'ni': ni, 'mode': 'full'})
        ops.append(enum_op())
    # every checker constructed meanwhile: a sample of names in full at the end (checkers 1 and 2: all names, r1 / r2)
    for c in range(3, ncks[0] + 1):
        for ni in rng.sample(hits, min(12, len(hits))) + rng.sample(allni, min(12, len(allni))):
            ops.append({'a': 'enum', 'ck': c, 'ni': ni, 'mode': 'full'})
    return ops


def scout_names(saved, names):
    """{ni: (items delivered, user function calls, rule matches)} from a checker of its own"""
    ft = K.FnTable(K.DEFAULT_TAB)
    ck = K.lvs().Checker.load(saved, ft.fns)
    out = {}
    for i, nm in enumerate(names):
        ft.calls = 0
        try:
            raw = list(ck.match(K.real_name(nm)))
            ny, nr = len(raw), len(K.decode_matches(raw)[1])
        except Exception:  # noqa - reported where the name is asked for on the recorded checkers
            ny = nr = 0
        out[i + 1] = (ny, ft.calls, nr)
    return out


# ------------------------------------------------------------------ stage C records

def record_schema(ctx, sid, rules, L, rng, want='m', npairs=0):
    """Build + query the real library for one schema. Returns (record|None, outcome, text)."""
    text = K.render(rules)
    ft = K.FnTable(K.DEFAULT_TAB)
    oc, ck, msg, note = K.build2(text, ft.fns)
    K.recompile_violation(ctx, ctx.prop, note, text)
    if oc != 'ok':
        return None, (oc, msg), text
    alpha = K.alphabet(rules, rng)
    names = K.names_upto(alpha, L)
    rec = {'sid': sid, 'kind': want, 'rules': rules, 'model': K.dump_model(ck.model), 'names': names,
           'text': text, 'alpha': alpha}
    return rec, ('ok', ck, ft), text


def stats_history(stat, h, scout):
    """what the histories of a run exercised (vacuity of the history dimension)"""
    seen = {}
    for ev in h.hist:
        ny = scout[ev['ni']][0]
        stat['enum'] += 1
        part = (ev['mode'] == 'take' and ev['ny'] >= ev['k'] and ny > ev['k']) or (ev['mode'] == 'abort' and ev['oc'] != 'ok')
        stat['cut'] += ev['mode'] == 'take' and part
        stat['fault'] += ev['mode'] == 'abort' and part
        stat['nested'] += ev['mode'] == 'nested' and 0 < ev['k'] < ny
        stat['again'] += seen.get((ev['ck'], ev['ni']), False)
        seen[(ev['ck'], ev['ni'])] = seen.get((ev['ck'], ev['ni']), False) or part
        if ev['ck'] > 2 and ev['mode'] == 'full' and h.cks[ev['ck'] - 1][1].tab != K.DEFAULT_TAB:
            stat['tabdiff'] += len(ev['res']) != scout[ev['ni']][2]
    stat['again'] += sum(1 for (c, ni), part in seen.items() if part and c <= 2)     # asked again for r1 / r2
    stat['cks'] += len(h.cks) - 2


def classify_and_report(ctx, prop, recs, verdicts, what_fn):
    for rec in recs:
        v = verdicts[rec['sid']]
        for cls, cnt, first in sorted(v):
            ctx.violation('%s/%s' % (prop, cls), what_fn(rec, cls, cnt, first),
                          {'kind': rec['kind'], 'rules': rec['rules'], 'text': rec['text'], 'alpha': rec['alpha'],
                           'L': max(len(n) for n in rec['names']), 'class': cls, 'first': first,
                           'pairs': rec.get('pairs'), 'ops': rec.get('ops'), 'allnames': rec.get('allnames')})


def run(ctx):
    ctx.rule = ('non-trivial = distinct (schema, name) where the source reference or the real checker reports at least '
                'one rule match (B and C), plus distinct (tree, name) with a non-empty walk (B trees)')
    ctx.assumptions = ['names are judged up to the stated length over an alphabet with every literal of the schema and '
                       'fresh components; components are compared as opaque values (URI form)',
                       'user functions $eq/$eq_type (library) and $in/$isv (harness) mean what Lvs!Fn says; '
                       '$eq_type is only generated with literal arguments',
                       "synthetic '#_<node>' results of Checker.match are not rule matches; temporary rule names are "
                       'compared modulo the #<n> suffix']
    procs = ctx.pick(4, 8)
    if 'A' in ctx.stages:
        stage_a(ctx, procs)
    if 'B' in ctx.stages:
        stage_b(ctx, procs)
    if 'C' in ctx.stages:
        stage_c(ctx, procs)


def stage_a(ctx, procs):
    mn, ml = ctx.pick((3, 2), (4, 3))
    cfg = walk_cfg(K.scratch('LvsTree_walk_c11_%s.cfg' % ctx.tier), mn, ml,
                   invariants=WALK_INVS, properties=['YieldsSoundA'])
    wits = ('W_Backtracked', 'W_PreboundUsed', 'W_DeepYield')
    jobs = [lambda: tlc.run('LvsTree', cfg, coverage=True, workers=ctx.pick(4, 16))]
    for w in wits:
        wp = walk_cfg(K.scratch('LvsTree_walk_c11_%s.cfg' % w), 3, 2, invariants=[w])
        jobs.append(lambda wp=wp: tlc.run('LvsTree', wp, workers=1, heavy=False))
    # the deviation flag is visible: with DevPrebound the machine differs from the documented walk
    dp = walk_cfg(K.scratch('LvsTree_walk_c11_d.cfg'), 3, 2, dev=True, invariants=['WalkEqualsDocumented'])
    jobs.append(lambda: tlc.run('LvsTree', dp, workers=1, heavy=False))
    # laws of the source reference on the small-schema family
    jobs.append(lambda: enum_run(ctx, 'laws', ctx.pick(79, 7), procs, tag='a'))
    res = K.par(jobs)
    r = res[0]
    ctx.add_tlc('LvsTree walk machine MaxNodes=%d MaxLen=%d' % (mn, ml), r)
    if r.violated:
        ctx.violation('C11/spec/LvsTree/%s' % r.violated, 'TLC: %s violated by the walk machine' % r.violated,
                      {'kind': 'spec', 'trace': r.errtrace})
    for a in WALK_ACTS:
        if r.ok and r.coverage.get(a, (0, 0))[1] == 0:
            raise tlc.MachineryError('vacuous: action %s of the walk machine never taken' % a)
    for w, rw in zip(wits, res[1:4]):
        if rw.violated != w:
            raise tlc.MachineryError('witness %s not reachable' % w)
    if res[4].violated != 'WalkEqualsDocumented':
        raise tlc.MachineryError('DevPrebound has no visible effect on small trees (deviation model vacuous)')
    names, items = res[5]
    seen = set()
    for it in items:
        for law in it[2]:
            ctx.violation('C11/spec/Lvs/law/%s' % law, 'reference law %s fails on family schema %d' % (law, it[1]),
                          {'kind': 'spec', 'index': it[1]})
        seen |= set(it[3])
    for w in ('w-check-yes', 'w-devT-differs', 'w-devP-differs', 'w-two-rules-match'):
        if w not in seen:
            raise tlc.MachineryError('law witness %s never seen' % w)
    ctx.note('A: walk machine = recursive walk on %d states; %d family schemas satisfy the reference laws; witnesses %s'
             % (r.distinct, len(items), sorted(seen)))


def stage_b(ctx, procs):
    # ---- schemas
    (names, items), (tnames, titems) = K.par([
        lambda: enum_run(ctx, 'schemas', ctx.pick(37, 1), procs, maxlen=4, tag='b', fs=4),     # #r1/#r1 of two-item rules
        lambda: enum_run(ctx, 'trees', 1, ctx.pick(2, procs), maxnodes=ctx.pick(3, 4), tag='t')])
    bad = []
    nrej = 0
    npart = [0]
    for it in items:
        rules = to_json(it[2])
        exp = [expset(v) for v in seq(it[3])]
        text = K.render(rules)
        ft1 = K.FnTable(K.DEFAULT_TAB)
        oc, ck, msg, note = K.build2(text, ft1.fns)
        K.recompile_violation(ctx, 'C11', note, text)
        ctx.traces += 1
        if oc != 'ok':
            nrej += 1          # e.g. a name pattern that signs itself: C13 judges rejections
            continue
        # the two checkers are long-lived: every name with a match is first asked for by a caller that stops early
        saved = ck.save()
        h = K.History(ck.model, saved, names)
        h.add(ck, ft1, 'direct')
        h.new(K.DEFAULT_TAB, 'load')
        ck2 = h.cks[1][0]
        ops = ops_first_partial([ni + 1 for ni, n in enumerate(names) if n and exp[ni]], 2)
        h.run(ops)
        mism = False
        for ev in h.hist:
            ctx.evaluations += 1
            npart[0] += len(exp[ev['ni'] - 1]) > 1          # (by the reference: more to come after the first result)
            if ev['oc'] != 'ok' or not recset(ev['res']) <= exp[ev['ni'] - 1]:
                mism = True
        r1s, r2s, nms = [], [], []
        for ni, n in enumerate(names):
            if not n:
                continue
            s1, r1 = K.run_match(ck, n)
            s2, r2 = K.run_match(ck2, n)
            ctx.evaluations += 2
            if s1 != 'ok' or s2 != 'ok':
                ctx.violation('C11/Checker.match/exception/%s' % (s1 if s1 != 'ok' else s2),
                              'match(%s) raised on\n%s' % (n, text), {'kind': 'text', 'text': text, 'name': n})
                continue
            if exp[ni] or r1:
                ctx.nt('B%d/%d' % (it[1], ni))
            if recset(r1) != exp[ni] or recset(r2) != exp[ni]:
                mism = True
            nms.append(ni + 1); r1s.append(r1); r2s.append(r2)
        h.finish()
        if mism:
            bad.append((it[1], rules, text, ck, h, ops, nms, r1s, r2s))
        ctx.sample({'kind': 'B-schema', 'text': text, 'names': len(names)}, limit=2)
    ctx.note('B: %d family schemas x %d names executed on compile_lvs + Checker.match (%d more rejected, see C13), every '
             'matching name first enumerated partially on the same objects (%d enumerations of names with several matches cut short); '
             '%d differ from Lvs!Match' % (len(items) - nrej, len(names), nrej, npart[0], len(bad)))
    if items and not npart[0]:
        raise tlc.MachineryError('B: no enumeration of the family was really cut short (history dimension vacuous)')
    if bad:                                   # let the judge attribute the differences
        recs = []
        for idx, rules, text, ck, h, ops, nms, r1s, r2s in bad:
            recs.append(with_history({'sid': idx, 'kind': 'm', 'rules': rules, 'model': K.dump_model(ck.model),
                                      'names': names, 'text': text, 'alpha': ['a', 'b', 'c']},
                                     ctx, h, ops, nms, r1s, r2s))
        ver = K.judge(ctx, [strip(r) for r in recs], 'c11b', procs)
        classify_and_report(ctx, 'C11', recs, ver, what_m)
    # ---- trees
    ntree = ntab = 0
    for it in titems:
        tree = it[2]
        if not it[3]:
            raise tlc.MachineryError('sane-tree family contains an insane tree')
        if not it[6]:
            continue           # constraints on a re-bound tag: not a tree the compiler can emit
        # two checkers loaded from the same bytes, alive together: the second one's dictionary gives $eq the meaning
        # LvsEnum!EnumTab says; TLC enumerated the walk of the tree as read by either
        exps = [[frozenset((r[0], frozenset(ctxdict(r[1]).items())) for r in e) for e in seq(it[k])] for k in (5, 7)]
        wire = bytes(model_from_tree(tree).encode())
        h = K.History(None, wire, tnames, decode=decode_nodes)
        try:
            h.new(K.DEFAULT_TAB, 'load')
            h.new(dict(K.DEFAULT_TAB, **TREE_TAB), 'load')
        except Exception as e:  # noqa
            ctx.violation('C11/Checker.load/sane-tree/%s' % type(e).__name__,
                          'a sane tree enumerated by TLC is not loadable: %r' % e, {'kind': 'tree', 'tree': to_json(tree)})
            continue
        ntree += 1
        ctx.traces += 1
        idx = [ni + 1 for ni, n in enumerate(tnames) if n]
        ntab += any(exps[0][ni - 1] != exps[1][ni - 1] for ni in idx)
        # each name: first a caller that stops after one result (where there is one), then in full, on both objects
        ops = []
        for ni in idx:
            for c in (1, 2):
                if exps[c - 1][ni - 1]:
                    ops.append({'a': 'enum', 'ck': c, 'ni': ni, 'mode': 'take', 'k': 1, 'end': take_end(ni + c)})
            ops += [{'a': 'enum', 'ck': c, 'ni': ni, 'mode': 'full'} for c in ((1, 2) if ni % 2 else (2, 1))]
        h.run(ops)
        h.finish()
        for ev in h.hist:
            n = tnames[ev['ni'] - 1]
            want, got = exps[ev['ck'] - 1][ev['ni'] - 1], ev['res']
            ctx.evaluations += 1
            if want and ev['mode'] == 'full' and ev['ck'] == 1:
                ctx.nt('T%d/%d' % (it[1], ev['ni'] - 1))
            whole = ev['mode'] == 'full' or ev['ny'] < ev['k']
            if ev['oc'] != 'ok':
                ctx.violation('C11/Checker.match/tree/%s/%s' % (ev['mode'], ev['oc']),
                              'tree %d name %s: Checker.match raises %s' % (it[1], n, ev['oc']),
                              {'kind': 'tree', 'tree': to_json(tree), 'name': n})
            elif (got != want) if whole else not got <= want:
                cmp_ = 'extra' if got > want else 'missing' if got < want else 'differs'
                sig = 'C11/Checker.match/tree/%s' % cmp_
                if ev['mode'] != 'full':
                    sig = 'C11/Checker.match/tree/%s/%s' % (ev['mode'], cmp_)
                elif ev['ck'] == 2:
                    sig = 'C11/Checker.match/tree/second-table/%s' % cmp_
                ctx.violation(sig, 'tree %d name %s, checker %d (%s, history: every name first taken partially, two checkers '
                              'with different function tables): Checker.match nodes %s, LvsTree!Walk %s'
                              % (it[1], n, ev['ck'], ev['mode'], sorted(got), sorted(want)),
                              {'kind': 'tree', 'tree': to_json(tree), 'name': n})
    if ntree and not ntab:
        raise tlc.MachineryError('B: the second function table changes no walk of any enumerated tree (vacuous)')
    ctx.note('B: %d TLC-enumerated sane trees x %d names executed on Checker.load + match, each tree by two checkers with '
             'different function tables alive together (%d trees where the table matters), every matching name first '
             'enumerated partially' % (ntree, len(tnames), ntab))


def strip(rec):
    return {k: v for k, v in rec.items() if k not in ('text', 'alpha', 'ops', 'allnames')}


def with_history(rec, ctx, h, ops, nms, r1s, r2s):
    """complete a judge record: the names nms (1-based indices into h.names) with the results of their last
    enumerations on checkers 1 and 2, the checkers, and every other enumeration of the history"""
    pos = {ni: j + 1 for j, ni in enumerate(nms)}
    rec['names'] = [h.names[ni - 1] for ni in nms]
    rec['r1'], rec['r2'] = r1s, r2s
    rec['cks'] = h.cks_json()
    rec['hist'] = [dict(ev, ni=pos[ev['ni']]) for ev in h.judged(ctx, ctx.prop, rec['text']) if ev['ni'] in pos]
    rec['ops'], rec['allnames'] = ops, h.names
    return rec


def what_m(rec, cls, cnt, first):
    n = rec['names'][first - 1]
    return ('%s on %d name(s), first /%s: source reference, compiled tree and Checker.match disagree for schema\n%s'
            % (cls, cnt, '/'.join(n), rec['text']))


def stage_c(ctx, procs):
    n = ctx.pick(110, 1500)
    L = ctx.pick(3, 4)
    gen = K.Gen(ctx.rng, foreign=0.35, flat=0.2, stack=0.3, tower=0.15)
    nlong = [0, 0]
    recs, rejected = [], 0
    sid = 0
    stat = dict(enum=0, cut=0, fault=0, nested=0, again=0, cks=0, tabdiff=0)
    while len(recs) < n and sid < 3 * n:
        sid += 1
        if sid % ctx.pick(30, 12) == 3:
            gen.force = {'wide'}           # scale: every 30th (12th) schema has 10 and more named patterns
        rules = gen.schema()
        rec, oc, text = record_schema(ctx, sid, rules, L, ctx.rng)
        if rec is None:
            rejected += 1          # rejections of generated schemas are C13's business
            continue
        ck, ft1 = oc[1], oc[2]
        saved = ck.save()
        ctx.traces += 1
        # a trailing implicit digest is not part of the name that is matched: every matching name (and a few others)
        # is asked once more with a digest component appended
        plain = [nm for nm in rec['names'] if nm]
        sc = scout_names(saved, plain)
        hitn = [nm for i, nm in enumerate(plain) if sc[i + 1][2]]
        extra = [nm + [K.DIGEST] for nm in hitn[:40] + ctx.rng.sample(plain, min(10, len(plain)))] + [[K.DIGEST]]
        # ... while a trailing ParametersSha256Digest component is a component like any other (seed round 7)
        extra += [nm + [K.PDIGEST] for nm in hitn[:15] + ctx.rng.sample(plain, min(5, len(plain)))] + [[K.PDIGEST]]
        # expanded names longer than L (references nested several levels deep): names chosen along the chains of the schema
        longn = K.chain_names(rules, rec['alpha'], ctx.rng, L, limit=ctx.pick(8, 60))
        extra += longn
        nlong[0] += len(longn)
        allnames = rec['names'] + extra
        scout = scout_names(saved, allnames)
        # the history of the two long-lived checkers (direct, reloaded) and of the checkers constructed meanwhile
        h = K.History(ck.model, saved, allnames)
        h.add(ck, ft1, 'direct')
        h.new(K.DEFAULT_TAB, 'load')
        ck2 = h.cks[1][0]
        ops = ops_random(ctx.rng, rules, scout, ctx.pick(24, 40), ctx.rng.choice([1, 1, 2]))
        h.run(ops)
        ctx.evaluations += len(h.hist)
        r1, r2, nms = [], [], []
        for ni, nm in enumerate(allnames):
            s1, a = K.run_match(ck, nm)
            s2, b = K.run_match(ck2, nm)
            ctx.evaluations += 2
            if s1 != 'ok' or s2 != 'ok':
                exc = s1 if s1 != 'ok' else s2
                ctx.violation('C11/Checker.match/%s/%s' % ('empty-name' if not nm else 'name', exc),
                              'Checker.match(%r) raises %s instead of reporting the matching rules; schema\n%s'
                              % ('/' + '/'.join(nm), exc, text), {'kind': 'text', 'text': text, 'name': nm})
                continue
            nms.append(ni + 1); r1.append(a); r2.append(b)
            if a:
                ctx.nt('C%d/%s' % (sid, '/'.join(nm)))
                nlong[1] += len(nm) > L and nm[-1] not in (K.DIGEST, K.PDIGEST)
        h.finish()
        with_history(rec, ctx, h, ops, nms, r1, r2)
        names = rec['names']
        stats_history(stat, h, scout)
        recs.append(rec)
        ctx.sample({'kind': 'C-schema', 'text': text, 'alphabet': rec['alpha'], 'names': len(names)}, limit=3)
    ctx.note('C: %d generated schemas compiled (%d more rejected by compile_lvs/Checker, judged by C13), '
             '%d names each up to length %d' % (len(recs), rejected, len(recs[0]['names']) if recs else 0, L))
    ctx.note('C: generator shapes: %d schemas with a constraint inherited onto a pattern that only the referring rule has, '
             '%d with a definition written like one chain of another rule' % (gen.stat['foreign'], gen.stat['flat']))
    ctx.note('C: %d schemas where one pattern of an expanded name carries several constraints with mixed alternatives, %d with '
             'references nested 3-4 deep that reach one rule twice, %d with 10 and more named patterns; %d names longer than '
             '%d components chosen along the chains (%d of them match a rule)'
             % (gen.stat['stack'], gen.stat['tower'], gen.stat['wide'], nlong[0], L, nlong[1]))
    if len(recs) >= 50 and not (gen.stat['foreign'] and gen.stat['flat'] and gen.stat['stack'] and gen.stat['tower']
                                and gen.stat['wide'] and nlong[1]):
        raise tlc.MachineryError('C: generator dimension vacuous: %s %s' % (gen.stat, nlong))
    ctx.note('C: histories on the long-lived checkers: %(enum)d more enumerations (%(cut)d cut short before their end, '
             '%(fault)d aborted by a raising user function, %(nested)d suspended while others ran, %(again)d of a name whose '
             'earlier enumeration on that object was incomplete); %(cks)d checkers constructed meanwhile with other '
             'function tables, %(tabdiff)d of their enumerations differ from what the default table gives' % stat)
    ver = K.judge(ctx, [strip(r) for r in recs], 'c11c', procs)
    classify_and_report(ctx, 'C11', recs, ver, what_m)
    # vacuity of the history dimension (the counts come from what the library did: only meaningful when it conforms)
    for k in ('cut', 'fault', 'nested', 'again', 'tabdiff'):
        if len(recs) >= 50 and not stat[k] and not any(ver[r['sid']] for r in recs):
            raise tlc.MachineryError('C: history dimension vacuous: %s = 0' % k)


def replay(ctx, path):
    with open(path) as f:
        obj = json.load(f)
    if obj.get('kind') in ('m',):
        rec, oc, text = record_schema(ctx, 1, obj['rules'], obj['L'], ctx.rng)
        print(text)
        if rec is None:
            print('build failed: %s' % (oc,))
            return 1
        ck, ft1 = oc[1], oc[2]
        allnames = obj.get('allnames') or [n for n in K.names_upto(obj['alpha'], obj['L']) if n]
        h = K.History(ck.model, ck.save(), allnames)
        h.add(ck, ft1, 'direct')
        h.new(K.DEFAULT_TAB, 'load')
        ck2 = h.cks[1][0]
        h.run(obj.get('ops') or [])              # the recorded history, then every name in full on checkers 1 and 2
        nms = [i + 1 for i, n in enumerate(allnames) if n or obj.get('ops')]
        r1 = [K.run_match(ck, allnames[i - 1])[1] for i in nms]
        r2 = [K.run_match(ck2, allnames[i - 1])[1] for i in nms]
        h.finish()
        with_history(rec, ctx, h, obj.get('ops'), nms, r1, r2)
        ver = K.judge(ctx, [strip(rec)], 'c11r', 1)
        v = ver[1]
        for cls, cnt, first in sorted(v):
            print('MISMATCH %s on %d names, first /%s' % (cls, cnt, '/'.join(rec['names'][first - 1])))
            print('  Checker.match (last enumeration on checker 1):', rec['r1'][first - 1])
            for ev in rec['hist']:
                if ev['ni'] == first:
                    print('  history: checker %(ck)d %(mode)s k=%(k)d -> %(ny)d items, %(oc)s: %(res)s' % ev)
        print('reproduced' if v else 'not reproduced (all three agree)')
        return 1 if v else 0
    if obj.get('kind') == 'recompile':
        K.build('#other: "o"/p\n')
        oc, ck, msg, note = K.build2(obj['text'])
        oc, ck, msg, note2 = K.build2(obj['text'])
        print(obj['text'], oc, note or note2 or 'both compilations agree')
        return 1 if (note or note2) else 0
    if obj.get('kind') == 'text':
        oc, ck, msg = K.build(obj['text'])
        print(obj['text'], oc, msg)
        if ck is not None and 'name' in obj:
            print('match(%s) ->' % obj['name'], K.run_match(ck, obj['name']))
            return 1 if K.run_match(ck, obj['name'])[0] != 'ok' else 0
        return 1 if oc != 'ok' else 0
    print(json.dumps(obj, indent=1)[:4000])
    return 0
