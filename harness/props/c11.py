"""C11 - a compiled trust schema matches exactly the names its source text describes.

Spec: Lvs.tla (source meaning), LvsTree.tla (binary model; Checker._match as a state machine),
      LvsEnum.tla (TLC-enumerated inputs), LvsJudge.tla (judge of recorded results).

A  TLC: (1) the _match state machine on every small sane tree x name x carried context: its yields equal
   the recursive walk (WalkEqualsRec, YieldsSound), bindings are undone, it terminates; vacuity witnesses.
   (2) laws of the source reference on the exhaustive small-schema family (digest ignored, deviation
   flags change nothing outside their territory, witnesses).
B  spec -> code: TLC enumerates the small-schema family with Match for every name, and the small sane
   trees with the walk result for every name; the harness renders / builds them, runs the real
   compile_lvs + Checker.match (directly and after save/load) and compares.
C  code -> spec: seeded generator of well-formed schemas; real results for all names up to length L over
   an alphabet with every literal + fresh components; TLC judges the three-way equality
   Lvs!Match = LvsTree!TreeMatch(compiled model) = recorded (direct and reloaded).
"""
import json, os

from harness import tlc, lvskit as K
from harness.tlaval import to_json, seq

WALK_INVS = ['WalkEqualsRec', 'ContextRestored', 'StackShape']
WALK_ACTS = ['StepStart', 'StepYield', 'StepValueHit', 'StepValueMiss', 'StepPatternSkip', 'StepPatternTake', 'StepExhausted']


def walk_cfg(path, maxnodes, maxlen, corrupt='none', count=True, dev=False, invariants=(), properties=()):
    return tlc.write_cfg(path, spec='WSpec', constants={
        'MaxNodes': maxnodes, 'MaxLen': maxlen, 'Corrupt': '"%s"' % corrupt,
        'CountSteps': 'TRUE' if count else 'FALSE', 'DevPrebound': 'TRUE' if dev else 'FALSE'},
        invariants=invariants, properties=properties)


def enum_run(ctx, mode, stride, procs, maxnodes=3, maxlen=3, corrupt='none', tag=''):
    """Run LvsEnum in `procs` processes (interleaved shards). Returns (names, [printed tuples])."""
    from concurrent.futures import ThreadPoolExecutor
    off0 = ctx.seed % stride
    fs = min(stride, 3)            # focus shapes (LvsEnum!Focus) are sampled every 3rd instead of every stride-th

    def one(j):
        cfg = K.scratch('LvsEnum_%s_%s%s_%d.cfg' % (ctx.prop, mode, tag, j))
        tlc.write_cfg(cfg, spec=None, init='EInit', next_='ENext', constants={
            'MaxNodes': maxnodes, 'MaxLen': maxlen, 'Corrupt': '"%s"' % corrupt, 'CountSteps': 'FALSE',
            'DevPrebound': 'FALSE', 'Mode': '"%s"' % mode, 'Stride': stride * procs, 'Offset': off0 + j * stride,
            'FocusStride': fs * procs, 'FocusOffset': ctx.seed % fs + j * fs})
        return tlc.run('LvsEnum', cfg, workers=1, heavy=False, tag='lvse', timeout=3000)
    with ThreadPoolExecutor(procs) as ex:
        rs = list(ex.map(one, range(procs)))
    agg = tlc.TlcResult()
    items, names = [], None
    for r in rs:
        agg.distinct += r.distinct
        agg.generated += r.generated
        agg.wall = max(agg.wall, r.wall)
        for mk in ('E', 'W', 'T', 'L'):
            items += K.parse_prints(r.out, mk)
        nm = K.parse_prints(r.out, 'NAMES')
        names = [list(n) for n in nm[0][1]]
    ctx.add_tlc('LvsEnum mode=%s stride=%d (%d inputs)' % (mode, stride, len(items)), agg)
    if not items:
        raise tlc.MachineryError('LvsEnum mode=%s produced no input' % mode)
    return names, items


def recset(lst):
    return frozenset((e['rule'], frozenset((k, v) for k, v in e['ctx'])) for e in lst)


def expset(v):
    return frozenset((r, frozenset((k, c) for k, c in cx)) for r, cx in v)


# ------------------------------------------------------------------ real model from a spec tree (stage B)

def model_from_tree(t):
    """LvsTree model value (parsed TLA record, or its JSON form) -> ndn LvsModel object."""
    from ndn.app_support.light_versec import binary as bny

    def seq(v):
        return list(v) if isinstance(v, (list, tuple)) else [v[k] for k in sorted(v)]

    def opt(o):
        x = bny.ConstraintOption()
        if o['hv']:
            x.value = K.comp(o['v'])
        if o['ht']:
            x.tag = o['tag']
        if o['hf']:
            x.fn = bny.UserFnCall()
            x.fn.fn_id = o['fn']
            x.fn.args = []
            for a in seq(o['args']):
                y = bny.UserFnArg()
                if a['hv']:
                    y.value = K.comp(a['v'])
                if a['ht']:
                    y.tag = a['tag']
                x.fn.args.append(y)
        return x
    m = bny.LvsModel()
    m.version = t['version'] if t['hver'] else None
    m.start_id = t['start'] if t['hstart'] else None
    m.named_pattern_cnt = t['npc']
    m.nodes = []
    for nd in seq(t['nodes']):
        n = bny.Node()
        n.id = nd['id'] if nd['hid'] else None
        n.parent = nd['parent'] if nd['hp'] else None
        n.rule_name = list(seq(nd['rules']))
        n.v_edges, n.p_edges = [], []
        for e in seq(nd['v']):
            ve = bny.ValueEdge()
            ve.dest = e['dest'] if e['hd'] else None
            ve.value = K.comp(e['val']) if e['hv'] else None
            n.v_edges.append(ve)
        for e in seq(nd['p']):
            pe = bny.PatternEdge()
            pe.dest = e['dest'] if e['hd'] else None
            pe.tag = e['tag'] if e['ht'] else None
            pe.cons_sets = []
            for c in seq(e['cons']):
                pc = bny.PatternConstraint()
                pc.options = [opt(o) for o in seq(c)]
                pe.cons_sets.append(pc)
            n.p_edges.append(pe)
        n.sign_cons = list(seq(nd['sign']))
        m.nodes.append(n)
    m.symbols = []
    return m


def ctxdict(v):
    """a TLA function tag -> component as printed by TLC (a function on 1..n prints as a tuple)."""
    if isinstance(v, dict):
        return dict(v)
    return {i + 1: x for i, x in enumerate(v)}


def node_matches(ck, name):
    """Checker.match on a tree without rule names: results are '#_<node>' -> (node, ctx by tag)."""
    out = set()
    for rules, cx in ck.match(K.real_name(name)):
        for rn in rules:
            out.add((int(rn[2:]), frozenset((int(k), K.comp_str(v)) for k, v in cx.items())))
    return frozenset(out)


# ------------------------------------------------------------------ stage C records

def record_schema(ctx, sid, rules, L, rng, want='m', npairs=0):
    """Build + query the real library for one schema. Returns (record|None, outcome, text)."""
    text = K.render(rules)
    oc, ck, msg, note = K.build2(text)
    K.recompile_violation(ctx, ctx.prop, note, text)
    if oc != 'ok':
        return None, (oc, msg), text
    alpha = K.alphabet(rules, rng)
    names = K.names_upto(alpha, L)
    rec = {'sid': sid, 'kind': want, 'rules': rules, 'model': K.dump_model(ck.model), 'names': names,
           'text': text, 'alpha': alpha}
    return rec, ('ok', ck), text


def classify_and_report(ctx, prop, recs, verdicts, what_fn):
    for rec in recs:
        v = verdicts[rec['sid']]
        for cls, cnt, first in sorted(v):
            ctx.violation('%s/%s' % (prop, cls), what_fn(rec, cls, cnt, first),
                          {'kind': rec['kind'], 'rules': rec['rules'], 'text': rec['text'], 'alpha': rec['alpha'],
                           'L': max(len(n) for n in rec['names']), 'class': cls, 'first': first,
                           'pairs': rec.get('pairs')})


def run(ctx):
    ctx.rule = ('non-trivial = distinct (schema, name) where the source reference or the real checker reports at least '
                'one rule match (B and C), plus distinct (tree, name) with a non-empty walk (B trees)')
    ctx.assumptions = ['names are judged up to the stated length over an alphabet with every literal of the schema and '
                       'fresh components; components are compared as opaque values (URI form)',
                       'user functions $eq/$eq_type (library) and $in/$isv (harness) mean what Lvs!Fn says; '
                       '$eq_type is only generated with literal arguments',
                       "synthetic '#_<node>' results of Checker.match are not rule matches; temporary rule names are "
                       'compared modulo the #<n> suffix']
    procs = ctx.pick(4, 8)
    if 'A' in ctx.stages:
        stage_a(ctx, procs)
    if 'B' in ctx.stages:
        stage_b(ctx, procs)
    if 'C' in ctx.stages:
        stage_c(ctx, procs)


def stage_a(ctx, procs):
    mn, ml = ctx.pick((3, 2), (4, 3))
    cfg = walk_cfg(K.scratch('LvsTree_walk_c11_%s.cfg' % ctx.tier), mn, ml,
                   invariants=WALK_INVS, properties=['YieldsSoundA'])
    wits = ('W_Backtracked', 'W_PreboundUsed', 'W_DeepYield')
    jobs = [lambda: tlc.run('LvsTree', cfg, coverage=True, workers=ctx.pick(4, 16))]
    for w in wits:
        wp = walk_cfg(K.scratch('LvsTree_walk_c11_%s.cfg' % w), 3, 2, invariants=[w])
        jobs.append(lambda wp=wp: tlc.run('LvsTree', wp, workers=1, heavy=False))
    # the deviation flag is visible: with DevPrebound the machine differs from the documented walk
    dp = walk_cfg(K.scratch('LvsTree_walk_c11_d.cfg'), 3, 2, dev=True, invariants=['WalkEqualsDocumented'])
    jobs.append(lambda: tlc.run('LvsTree', dp, workers=1, heavy=False))
    # laws of the source reference on the small-schema family
    jobs.append(lambda: enum_run(ctx, 'laws', ctx.pick(79, 7), procs, tag='a'))
    res = K.par(jobs)
    r = res[0]
    ctx.add_tlc('LvsTree walk machine MaxNodes=%d MaxLen=%d' % (mn, ml), r)
    if r.violated:
        ctx.violation('C11/spec/LvsTree/%s' % r.violated, 'TLC: %s violated by the walk machine' % r.violated,
                      {'kind': 'spec', 'trace': r.errtrace})
    for a in WALK_ACTS:
        if r.ok and r.coverage.get(a, (0, 0))[1] == 0:
            raise tlc.MachineryError('vacuous: action %s of the walk machine never taken' % a)
    for w, rw in zip(wits, res[1:4]):
        if rw.violated != w:
            raise tlc.MachineryError('witness %s not reachable' % w)
    if res[4].violated != 'WalkEqualsDocumented':
        raise tlc.MachineryError('DevPrebound has no visible effect on small trees (deviation model vacuous)')
    names, items = res[5]
    seen = set()
    for it in items:
        for law in it[2]:
            ctx.violation('C11/spec/Lvs/law/%s' % law, 'reference law %s fails on family schema %d' % (law, it[1]),
                          {'kind': 'spec', 'index': it[1]})
        seen |= set(it[3])
    for w in ('w-check-yes', 'w-devT-differs', 'w-devP-differs', 'w-two-rules-match'):
        if w not in seen:
            raise tlc.MachineryError('law witness %s never seen' % w)
    ctx.note('A: walk machine = recursive walk on %d states; %d family schemas satisfy the reference laws; witnesses %s'
             % (r.distinct, len(items), sorted(seen)))


def stage_b(ctx, procs):
    # ---- schemas
    (names, items), (tnames, titems) = K.par([
        lambda: enum_run(ctx, 'schemas', ctx.pick(29, 1), procs, maxlen=4, tag='b'),     # #r1/#r1 of two-item rules
        lambda: enum_run(ctx, 'trees', 1, ctx.pick(2, procs), maxnodes=ctx.pick(3, 4), tag='t')])
    bad = []
    nrej = 0
    for it in items:
        rules = to_json(it[2])
        exp = [expset(v) for v in seq(it[3])]
        text = K.render(rules)
        oc, ck, msg, note = K.build2(text)
        K.recompile_violation(ctx, 'C11', note, text)
        ctx.traces += 1
        if oc != 'ok':
            nrej += 1          # e.g. a name pattern that signs itself: C13 judges rejections
            continue
        ck2 = K.reload(ck)
        mism = False
        r1s, r2s = [], []
        for ni, n in enumerate(names):
            if not n:
                continue
            s1, r1 = K.run_match(ck, n)
            s2, r2 = K.run_match(ck2, n)
            ctx.evaluations += 2
            if s1 != 'ok' or s2 != 'ok':
                ctx.violation('C11/Checker.match/exception/%s' % (s1 if s1 != 'ok' else s2),
                              'match(%s) raised on\n%s' % (n, text), {'kind': 'text', 'text': text, 'name': n})
                continue
            if exp[ni] or r1:
                ctx.nt('B%d/%d' % (it[1], ni))
            if recset(r1) != exp[ni] or recset(r2) != exp[ni]:
                mism = True
        if mism:
            bad.append((it[1], rules, text, ck, ck2))
        ctx.sample({'kind': 'B-schema', 'text': text, 'names': len(names)}, limit=2)
    ctx.note('B: %d family schemas x %d names executed on compile_lvs + Checker.match (%d more rejected, see C13); '
             '%d differ from Lvs!Match' % (len(items) - nrej, len(names), nrej, len(bad)))
    if bad:                                   # let the judge attribute the differences
        recs = []
        for idx, rules, text, ck, ck2 in bad:
            nm = [n for n in names if n]
            recs.append({'sid': idx, 'kind': 'm', 'rules': rules, 'model': K.dump_model(ck.model), 'names': nm,
                         'r1': [K.run_match(ck, n)[1] for n in nm], 'r2': [K.run_match(ck2, n)[1] for n in nm],
                         'text': text, 'alpha': ['a', 'b', 'c']})
        ver = K.judge(ctx, [strip(r) for r in recs], 'c11b', procs)
        classify_and_report(ctx, 'C11', recs, ver, what_m)
    # ---- trees
    ntree = 0
    for it in titems:
        tree = it[2]
        if not it[3]:
            raise tlc.MachineryError('sane-tree family contains an insane tree')
        if not it[6]:
            continue           # constraints on a re-bound tag: not a tree the compiler can emit
        exp = seq(it[5])
        L = K.lvs()
        try:
            ck = L.Checker.load(bytes(model_from_tree(tree).encode()), K.user_fns())
        except Exception as e:  # noqa
            ctx.violation('C11/Checker.load/sane-tree/%s' % type(e).__name__,
                          'a sane tree enumerated by TLC is not loadable: %r' % e, {'kind': 'tree', 'tree': to_json(tree)})
            continue
        ntree += 1
        ctx.traces += 1
        for ni, n in enumerate(tnames):
            if not n:
                continue
            want = frozenset((r[0], frozenset(ctxdict(r[1]).items())) for r in exp[ni])
            got = node_matches(ck, n)
            ctx.evaluations += 1
            if want:
                ctx.nt('T%d/%d' % (it[1], ni))
            if got != want:
                ctx.violation('C11/Checker.match/tree/%s' % ('extra' if got > want else 'missing' if got < want else 'differs'),
                              'tree %d name %s: Checker.match nodes %s, LvsTree!Walk %s' % (it[1], n, sorted(got), sorted(want)),
                              {'kind': 'tree', 'tree': to_json(tree), 'name': n})
    ctx.note('B: %d TLC-enumerated sane trees x %d names executed on Checker.load + match' % (ntree, len(tnames)))


def strip(rec):
    return {k: v for k, v in rec.items() if k not in ('text', 'alpha')}


def what_m(rec, cls, cnt, first):
    n = rec['names'][first - 1]
    return ('%s on %d name(s), first /%s: source reference, compiled tree and Checker.match disagree for schema\n%s'
            % (cls, cnt, '/'.join(n), rec['text']))


def stage_c(ctx, procs):
    n = ctx.pick(110, 1500)
    L = ctx.pick(3, 4)
    gen = K.Gen(ctx.rng)
    recs, rejected = [], 0
    sid = 0
    while len(recs) < n and sid < 3 * n:
        sid += 1
        rules = gen.schema()
        rec, oc, text = record_schema(ctx, sid, rules, L, ctx.rng)
        if rec is None:
            rejected += 1          # rejections of generated schemas are C13's business
            continue
        ck = oc[1]
        ck2 = K.reload(ck)
        ctx.traces += 1
        r1, r2, names = [], [], []
        # a trailing implicit digest is not part of the name that is matched: every matching name (and a few others)
        # is asked once more with a digest component appended
        plain = [nm for nm in rec['names'] if nm]
        hitn = [nm for nm in plain if K.run_match(ck, nm)[1]]
        extra = [nm + [K.DIGEST] for nm in hitn[:40] + ctx.rng.sample(plain, min(10, len(plain)))] + [[K.DIGEST]]
        for nm in rec['names'] + extra:
            s1, a = K.run_match(ck, nm)
            s2, b = K.run_match(ck2, nm)
            ctx.evaluations += 2
            if s1 != 'ok' or s2 != 'ok':
                exc = s1 if s1 != 'ok' else s2
                ctx.violation('C11/Checker.match/%s/%s' % ('empty-name' if not nm else 'name', exc),
                              'Checker.match(%r) raises %s instead of reporting the matching rules; schema\n%s'
                              % ('/' + '/'.join(nm), exc, text), {'kind': 'text', 'text': text, 'name': nm})
                continue
            names.append(nm); r1.append(a); r2.append(b)
            if a:
                ctx.nt('C%d/%s' % (sid, '/'.join(nm)))
        rec['names'], rec['r1'], rec['r2'] = names, r1, r2
        recs.append(rec)
        ctx.sample({'kind': 'C-schema', 'text': text, 'alphabet': rec['alpha'], 'names': len(names)}, limit=3)
    ctx.note('C: %d generated schemas compiled (%d more rejected by compile_lvs/Checker, judged by C13), '
             '%d names each up to length %d' % (len(recs), rejected, len(recs[0]['names']) if recs else 0, L))
    ver = K.judge(ctx, [strip(r) for r in recs], 'c11c', procs)
    classify_and_report(ctx, 'C11', recs, ver, what_m)


def replay(ctx, path):
    with open(path) as f:
        obj = json.load(f)
    if obj.get('kind') in ('m',):
        rec, oc, text = record_schema(ctx, 1, obj['rules'], obj['L'], ctx.rng)
        print(text)
        if rec is None:
            print('build failed: %s' % (oc,))
            return 1
        ck = oc[1]
        ck2 = K.reload(ck)
        rec['names'] = [n for n in K.names_upto(obj['alpha'], obj['L']) if n]
        rec['r1'] = [K.run_match(ck, n)[1] for n in rec['names']]
        rec['r2'] = [K.run_match(ck2, n)[1] for n in rec['names']]
        ver = K.judge(ctx, [strip(rec)], 'c11r', 1)
        v = ver[1]
        for cls, cnt, first in sorted(v):
            print('MISMATCH %s on %d names, first /%s' % (cls, cnt, '/'.join(rec['names'][first - 1])))
            print('  Checker.match:', rec['r1'][first - 1])
        print('reproduced' if v else 'not reproduced (all three agree)')
        return 1 if v else 0
    if obj.get('kind') == 'recompile':
        K.build('#other: "o"/p\n')
        oc, ck, msg, note = K.build2(obj['text'])
        oc, ck, msg, note2 = K.build2(obj['text'])
        print(obj['text'], oc, note or note2 or 'both compilations agree')
        return 1 if (note or note2) else 0
    if obj.get('kind') == 'text':
        oc, ck, msg = K.build(obj['text'])
        print(obj['text'], oc, msg)
        if ck is not None and 'name' in obj:
            print('match(%s) ->' % obj['name'], K.run_match(ck, obj['name']))
            return 1 if K.run_match(ck, obj['name'])[0] != 'ok' else 0
        return 1 if oc != 'ok' else 0
    print(json.dumps(obj, indent=1)[:4000])
    return 0
