"""C13 - ill-formed schemas and models are rejected; accepted models always terminate.

Spec: Lvs.tla (WellFormed, NoSelfSigner), LvsTree.tla (Sane = the documented sanity rules; the _match
      machine with its step bound and termination; Part 4: PatternIsOwnSigner, NodeSignCycle), LvsEnum.tla,
      LvsEnum13.tla (families RedefTemp, SharedSign), LvsJudge.tla (kinds "w" and "s") through LvsJudge13.tla.

A  TLC: on every small sane tree the _match machine terminates (<>Done under weak fairness), never stalls
   before `cur is None`, and takes at most StepBudget iterations; on every single parent-link corruption of
   these trees it still terminates whenever Sane holds; witnesses: some corrupted tree loops for ever, and
   it already does when only the parent links of the root's children are left unchecked.
B  spec -> code: (1) TLC enumerates two-rule schemas with undefined / temporary / cyclic references and
   signers and patterns that occur nowhere (and three-rule ones where the bad signer list belongs to a SECOND
   definition of #r1 with the same name), with WellFormed and NoSelfSigner; compile_lvs + Checker must raise
   SemanticError exactly on the ill-formed ones (and accept well-formed ones without a self-signing name
   pattern).  (2) TLC enumerates the small trees and all their parent-link corruptions with Sane; the real
   loader is run on the encoded tree: not Sane => LvsModelError; accepted => every match terminates within
   the step budget.  (3) TLC enumerates (LvsEnum13) one rule identifier defined two or three times, every definition with
   temporary patterns and constraints of its own (a constraint is judged against the definition it is written in -
   first, middle or last), and pairs of rules that expand to the very same name pattern with every combination of
   signers (a signing loop that closes only through the shared pattern, LvsTree!PatternIsOwnSigner, no rule
   identifier being on a loop); compile_lvs + Checker must refuse exactly the ill-formed ones and the ones with such
   a loop, and hand out a loadable model for the well-formed ones without a self-signing pattern.
C  code -> spec: seeded well-formed schemas; (i) one injected static error of each kind at every position - every
   definition of a rule defined several times (twin definitions with the same name included), cycles once through
   the first and once through the last definitions - judged by TLC (WellFormed); (ii) every single-field corruption of the compiled binary model (version,
   node ids, parents, edge destinations, signer ids, option shapes, missing tag), the corrupted model as the
   loader parses it judged by TLC (Sane); (iii) every query on every accepted model under a step budget
   derived from the spec (sys.settrace line counter on Checker._match).
"""
import copy, json, os, sys

from harness import tlc, lvskit as K
from harness.tlaval import to_json, seq
from harness.props import c11


# ------------------------------------------------------------------ step-bounded queries

class StepBudgetExceeded(Exception):
    pass


MAX_NODES_CORRUPTED = 32
LINES_PER_ITERATION = 100      # generous: one loop iteration of Checker._match executes < 45 lines


def step_budget(model):
    """LvsTree!StepBudget: iterations of the _match loop on a sane tree, for one walk."""
    return sum(len(n.p_edges) + 3 for n in model.nodes)


def bounded(fn, budget_lines):
    code = K.lvs().Checker._match.__code__
    cnt = [0]

    def local(frame, event, arg):
        if event == 'line':
            cnt[0] += 1
            if cnt[0] > budget_lines:
                raise StepBudgetExceeded()
        return local

    def tr(frame, event, arg):
        return local if frame.f_code is code else None
    old = sys.gettrace()
    sys.settrace(tr)
    try:
        return fn()
    finally:
        sys.settrace(old)


def query_terminates(ck, names, pairs):
    """Run match on names and check on pairs under the budget. Returns None or a description."""
    sb = step_budget(ck.model)
    one = LINES_PER_ITERATION * sb + 500
    for n in names:
        try:
            bounded(lambda: list(ck.match(K.real_name(n))) if n else list(ck._match([], {})), one)
        except StepBudgetExceeded:
            return 'match(/%s) exceeded %d lines (spec bound %d iterations)' % ('/'.join(n), one, sb)
        except RecursionError:
            return 'match(/%s) RecursionError' % '/'.join(n)
        except Exception:  # noqa  - raising is terminating
            pass
    for a, b in pairs:
        try:
            bounded(lambda: ck.check(K.real_name(a), K.real_name(b)), one * (sb + 2))
        except StepBudgetExceeded:
            return 'check(/%s, /%s) exceeded the step budget' % ('/'.join(a), '/'.join(b))
        except RecursionError:
            return 'check RecursionError'
        except Exception:  # noqa
            pass
    return None


def load_outcome(wire):
    L = K.lvs()
    try:
        return 'ok', L.Checker.load(wire, K.user_fns())
    except L.LvsModelError:
        return 'LvsModelError', None
    except L.SemanticError:
        return 'SemanticError', None
    except RecursionError:
        return 'RecursionError', None
    except Exception as e:  # noqa
        return type(e).__name__, None


# ------------------------------------------------------------------ (i) static error injection

def msg_class(msg):
    for key, cls in (('never occurs', 'pattern-never-occurs'), ('Loop detected', 'loop'),
                     ('non-existing rule', 'undefined-rule'), ('temporary rule', 'temporary-rule'),
                     ('non-existing key', 'undefined-signer'), ('not existing identifier', 'undefined-identifier'),
                     ('Temporary pattern', 'temporary-pattern-value')):
        if key in msg:
            return cls
    return 'other'


def _temps(r):
    return [it['p'] for it in r['name'] if it['k'] == 'p' and it['p'][0] == '_']


def _flat_text(rules, r, depth=0):
    """the text of ONE expanded name of definition r (references replaced by the first definition of the rule
    referred to, first alternative constraint set of each): (name, constraint set) or None."""
    name, inlined = [], []
    for it in r['name']:
        if it['k'] != 'r':
            name.append(dict(it))
            continue
        d = next((q for q in rules if q['id'] == it['r']), None)
        sub = _flat_text(rules, d, depth + 1) if d is not None and depth < 6 else None
        if sub is None:
            return None
        name += sub[0]
        inlined += sub[1]
    return name, inlined + (copy.deepcopy(r['cons'][0]) if r['cons'] else [])


def shared_pattern_injections(rules, ids):
    """Signing loops that close through a NAME PATTERN two rule identifiers share, no identifier being on a loop
    (LvsTree!PatternIsOwnSigner).  For every definition D of a rule: a rule #zs with the same text (or with the text of
    one expanded name of D) is added, and
      -1   D <= #zs                      (the pattern signs itself)
      -2   D <= #c, #c <= #zs            (#c: the next other rule)
      -2r  #zs <= #c, #c <= D's rule     (the added rule is the signed one, D the key)
    Whether the result has a loop (D with a temporary pattern: never the same pattern) is decided by the judge."""
    for i, r in enumerate(rules):
        if r['id'][1] == '_':
            continue
        texts = [('', copy.deepcopy(r['name']), copy.deepcopy(r['cons']))]
        if any(it['k'] == 'r' for it in r['name']):
            ft = _flat_text(rules, r)
            if ft is not None and 1 <= len(ft[0]) <= 6:
                texts.append(('@expanded', ft[0], [ft[1]] if ft[1] else []))
        others = [q for q in ids if q != r['id']]
        c = others[i % len(others)] if others else None
        ic = next((k for k, q in enumerate(rules) if q['id'] == c), None)
        for which, name, cons in texts:
            x = copy.deepcopy(rules); x[i]['sign'] = x[i]['sign'] + ['#zs']; x.append(K.rule('#zs', name, cons))
            yield 'pattern-signing-cycle-1' + which, (i,), x
            if c is None or which:
                continue
            x = copy.deepcopy(rules); x[i]['sign'] = x[i]['sign'] + [c]; x[ic]['sign'] = x[ic]['sign'] + ['#zs']
            x.append(K.rule('#zs', name, cons))
            yield 'pattern-signing-cycle-2', (i, ic), x
            x = copy.deepcopy(rules); x[ic]['sign'] = x[ic]['sign'] + [r['id']]; x.append(K.rule('#zs', name, cons, [c]))
            yield 'pattern-signing-cycle-2r', (i, ic), x


def foreign_temporary_injections(rules):
    """A constraint on a temporary pattern that occurs in ANOTHER definition only (temporaries are local to the text of
    one definition, Lvs!ConsOkIn): another definition of the same identifier, another rule, a definition of the same
    identifier added for the purpose before / after the constraining one."""
    for i, r in enumerate(rules):
        own = set(_temps(r))
        sib = sorted({t for k, q in enumerate(rules) if k != i and q['id'] == r['id'] for t in _temps(q)} - own)
        oth = sorted({t for k, q in enumerate(rules) if q['id'] != r['id'] for t in _temps(q)} - own - set(sib))
        for kind, ts in (('constrains-temporary-of-other-definition', sib), ('constrains-temporary-of-other-rule', oth)):
            for t in ts[:1]:
                x = copy.deepcopy(rules); x[i]['cons'].append([K.CONS(t, K.V('x'))]); yield kind, (i, 'newset'), x
                if r['cons']:
                    x = copy.deepcopy(rules); x[i]['cons'][0].append(K.CONS(t, K.V('x'))); yield kind, (i, 0), x
        if r['id'][1] == '_':
            continue
        x = copy.deepcopy(rules); x[i]['cons'].append([K.CONS('_zz', K.V('x'))]); x.append(K.rule(r['id'], [K.P('_zz'), K.V('x')]))
        yield 'constrains-temporary-of-later-definition', (i,), x
        x = copy.deepcopy(rules); x[i]['cons'].append([K.CONS('_zz', K.V('x'))]); x.insert(0, K.rule(r['id'], [K.V('x'), K.P('_zz')]))
        yield 'constrains-temporary-of-earlier-definition', (i,), x


def variations(rules):
    """WELL-FORMED variations (nothing is assumed here: the judge decides whether they are): a definition that
    constrains a temporary pattern of its own (one is given such a constraint when it has temporaries but none is
    constrained) gets a sibling definition of the same identifier that does NOT contain that temporary - the
    temporaries replaced by a literal, or called otherwise - placed last or first.  Each definition keeps temporary
    patterns and constraints of its own."""
    for i, r in enumerate(rules):
        ts = _temps(r)
        if r['id'][1] == '_' or not ts:
            continue
        base = copy.deepcopy(rules)
        if not any(c['pat'][0] == '_' for cs in r['cons'] for c in cs):
            if base[i]['cons']:
                for cs in base[i]['cons']:
                    cs.append(K.CONS(ts[0], K.V('x'), K.V('y')))
            else:
                base[i]['cons'] = [[K.CONS(ts[0], K.V('x'), K.V('y'))]]
        for how, sub in (('literal', lambda it: K.V('w')), ('renamed', lambda it: K.P('_zq'))):
            name = [sub(it) if it['k'] == 'p' and it['p'][0] == '_' else dict(it) for it in r['name']]
            x = copy.deepcopy(base); x.append(K.rule(r['id'], name)); yield 'redefined-after-' + how, (i,), x
            x = copy.deepcopy(base); x.insert(0, K.rule(r['id'], name)); yield 'redefined-before-' + how, (i,), x


def injections(rules, extra=True):
    """One schema per (error kind x position). Yields (kind, position, rules').  extra: the kinds of
    shared_pattern_injections and foreign_temporary_injections as well."""
    ids = []
    for r in rules:
        if r['id'][1] != '_' and r['id'] not in ids:
            ids.append(r['id'])
    has_tmp = any(r['id'] == '#_k' for r in rules)

    def cp():
        return copy.deepcopy(rules)
    for i, r in enumerate(rules):
        for j in range(len(r['name'])):
            x = cp(); x[i]['name'][j] = K.R('#zz'); yield 'undefined-reference', (i, j), x
            x = cp(); x[i]['name'][j] = K.R('#_k')
            if not has_tmp:
                x.append(K.rule('#_k', [K.V('x')]))
            yield 'temporary-reference', (i, j), x
            if r['id'][1] != '_':
                x = cp(); x[i]['name'][j] = K.R(r['id']); yield 'reference-cycle-1', (i, j), x
        # signing errors
        x = cp(); x[i]['sign'] = x[i]['sign'] + ['#zz']; yield 'undefined-signer', (i,), x
        x = cp(); x[i]['sign'] = x[i]['sign'] + ['#_k']
        if not has_tmp:
            x.append(K.rule('#_k', [K.V('x')]))
        yield 'temporary-signer', (i,), x
        if r['id'][1] != '_':
            x = cp(); x[i]['sign'] = x[i]['sign'] + [r['id']]; yield 'signing-cycle-1', (i,), x
        # constraints
        pats = [it['p'] for it in r['name'] if it['k'] == 'p']
        x = cp(); x[i]['cons'].append([K.CONS('zz', K.V('x'))]); yield 'constrains-unknown-pattern', (i, 'newset'), x
        x = cp(); x[i]['cons'].append([K.CONS('_zz', K.V('x'))]); yield 'constrains-unknown-temporary', (i, 'newset'), x
        for a, cs in enumerate(r['cons']):
            x = cp(); x[i]['cons'][a].append(K.CONS('zz', K.V('x'))); yield 'constrains-unknown-pattern', (i, a), x
            for b, c in enumerate(cs):
                x = cp(); x[i]['cons'][a][b]['opts'].append(K.P('zz')); yield 'option-unknown-pattern', (i, a, b), x
                x = cp(); x[i]['cons'][a][b]['opts'].append(K.F('$eq', K.P('zz'))); yield 'argument-unknown-pattern', (i, a, b), x
                x = cp(); x[i]['cons'][a][b]['opts'].append(K.P('_t')); yield 'temporary-as-option', (i, a, b), x
                x = cp(); x[i]['cons'][a][b]['opts'].insert(0, K.F('$eq', K.V('x'), K.P('_t'))); yield 'temporary-as-argument', (i, a, b), x
        if pats:
            x = cp(); x[i]['cons'].append([K.CONS(pats[0], K.P('zz'))]); yield 'option-unknown-pattern', (i, 'newset'), x
            x = cp(); x[i]['cons'].append([K.CONS(pats[0], K.P('_'))]); yield 'temporary-as-option', (i, 'newset'), x
    # cycles of length 2 and 3 through the first name item; once through the FIRST definitions of the rules involved and
    # once through their LAST ones (a rule defined several times: the error may sit in any of its definitions)
    first3 = True
    firstdef = {q: next(i for i, r in enumerate(rules) if r['id'] == q) for q in ids}
    lastdef = {q: max(i for i, r in enumerate(rules) if r['id'] == q) for q in ids}
    for a in range(len(ids)):
        for b in range(a + 1, len(ids)):
            for which, dd in (('', firstdef), ('@later-definition', lastdef)):
                ia, ib = dd[ids[a]], dd[ids[b]]
                if which and (ia, ib) == (firstdef[ids[a]], firstdef[ids[b]]):
                    continue
                x = cp(); x[ia]['name'][0] = K.R(ids[b]); x[ib]['name'][-1] = K.R(ids[a]); yield 'reference-cycle-2' + which, (ia, ib), x
                x = cp(); x[ia]['sign'] = x[ia]['sign'] + [ids[b]]; x[ib]['sign'] = x[ib]['sign'] + [ids[a]]
                yield 'signing-cycle-2' + which, (ia, ib), x
            for c in range(b + 1, len(ids)):
                if not first3:
                    break
                first3 = False
                for which, dd in (('', firstdef), ('@later-definition', lastdef)):
                    ia, ib, ic = dd[ids[a]], dd[ids[b]], dd[ids[c]]
                    if which and (ia, ib, ic) == (firstdef[ids[a]], firstdef[ids[b]], firstdef[ids[c]]):
                        continue
                    x = cp(); x[ia]['name'][0] = K.R(ids[b]); x[ib]['name'][0] = K.R(ids[c]); x[ic]['name'][0] = K.R(ids[a])
                    yield 'reference-cycle-3' + which, (ia, ib, ic), x
                    x = cp()
                    for p, q in ((ia, b), (ib, c), (ic, a)):
                        x[p]['sign'] = x[p]['sign'] + [ids[q]]
                    yield 'signing-cycle-3' + which, (ia, ib, ic), x
    if extra:
        yield from shared_pattern_injections(rules, ids)
        yield from foreign_temporary_injections(rules)


# ------------------------------------------------------------------ (ii) single-field corruptions of a binary model

def corruptions(wire):
    """Yields (kind, position, (corrupted bytes, corrupted model as JSON)); kind carries '@root' / '@rootchild' when the source node of
    the touched link is the root (the class the loader treats differently)."""
    from ndn.app_support.light_versec import binary as bny
    base = bny.LvsModel.parse(wire)
    n = len(base.nodes)
    start = base.start_id
    parent = {nd.id: nd.parent for nd in base.nodes}
    children = {nd.id: [e.dest for e in nd.v_edges] + [e.dest for e in nd.p_edges] for nd in base.nodes}

    def anc(i):
        out = []
        while parent.get(i) is not None:
            i = parent[i]
            out.append(i)
        return out

    def mut(f):
        """corrupted bytes + the corrupted model as JSON. The JSON is taken from the mutated object; every
        16th one is cross-checked against a fresh parse of the corrupted bytes (what the loader sees)."""
        m = bny.LvsModel.parse(wire)
        f(m)
        cw = bytes(m.encode())
        js = K.dump_model(m)
        mut.n += 1
        if mut.n % 16 == 0 and K.dump_model(bny.LvsModel.parse(cw)) != js:
            raise tlc.MachineryError('corrupted model does not survive encode/parse unchanged')
        return cw, js
    mut.n = 0

    def setattr_(path, val):
        """single attribute: mutate the shared parsed model in place, encode, restore (no re-parse)."""
        o = base
        for p in path[:-1]:
            o = getattr(o, p) if isinstance(p, str) else o[p]
        old = getattr(o, path[-1])
        setattr(o, path[-1], val)
        try:
            cw = bytes(base.encode())
            js = K.dump_model(base)
        finally:
            setattr(o, path[-1], old)
        mut.n += 1
        if mut.n % 16 == 0 and K.dump_model(bny.LvsModel.parse(cw)) != js:
            raise tlc.MachineryError('corrupted model does not survive encode/parse unchanged')
        return cw, js
    for name, v in (('missing', None), ('newer', bny.VERSION + 1), ('older', bny.MIN_SUPPORTED_VERSION - 1), ('zero', 0)):
        yield 'version-' + name, (), setattr_(['version'], v)
    # StartId: not among the documented sanity rules (LvsTree!Reach: no root, nothing reachable, every rule holds
    # vacuously) - exercised so that whatever the loader does with such a model is seen, and an accepted one is queried
    for name, v in (('missing', None), ('beyond', n), ('other', (start + 1) % n if n > 1 else None)):
        if name == 'missing' or v is not None:
            yield 'start-' + name, (), setattr_(['start_id'], v)
    for i in range(n):
        for name, v in (('next', (i + 1) % n if n > 1 else 1), ('beyond', n), ('missing', None)):
            if v != i:
                yield 'node-id-' + name, (i,), setattr_(['nodes', i, 'id'], v)
        if i == start:
            yield 'parent-self@root', (i,), setattr_(['nodes', i, 'parent'], i)
            if children[i]:
                yield 'parent-child@root', (i,), setattr_(['nodes', i, 'parent'], children[i][0])
        else:
            at = '@rootchild' if parent[i] == start else '@inner'
            other = next((q for q in range(n) if q != i and q != parent[i]), None)
            yield 'parent-self' + at, (i,), setattr_(['nodes', i, 'parent'], i)
            if other is not None:
                yield 'parent-other' + at, (i,), setattr_(['nodes', i, 'parent'], other)
            yield 'parent-missing' + at, (i,), setattr_(['nodes', i, 'parent'], None)
        nd = base.nodes[i]
        at = '@root' if i == start else '@inner'
        for kind, edges in (('v_edges', nd.v_edges), ('p_edges', nd.p_edges)):
            for j, e in enumerate(edges):
                pos = (i, kind, j)
                yield 'dest-beyond' + at, pos, setattr_(['nodes', i, kind, j, 'dest'], n)
                yield 'dest-missing' + at, pos, setattr_(['nodes', i, kind, j, 'dest'], None)
                yield 'dest-self' + at, pos, setattr_(['nodes', i, kind, j, 'dest'], i)
                a = anc(i)
                if a:
                    yield 'dest-ancestor' + at, pos, setattr_(['nodes', i, kind, j, 'dest'], a[-1])
                    if len(a) > 1:
                        yield 'dest-ancestor' + at, pos + ('parent',), setattr_(['nodes', i, kind, j, 'dest'], a[0])
                foreign = next((q for q in range(n) if q != i and q not in a and parent[q] != i and q != start), None)
                if foreign is not None:
                    yield 'dest-foreign' + at, pos, setattr_(['nodes', i, kind, j, 'dest'], foreign)
                sib = next((q for q in children[i] if q != e.dest), None)
                if sib is not None:
                    yield 'dest-sibling' + at, pos, setattr_(['nodes', i, kind, j, 'dest'], sib)
        for k in range(len(nd.sign_cons)):
            for name, v in (('beyond', n), ('far', n + 7)):
                def f(m, i=i, k=k, v=v):
                    m.nodes[i].sign_cons[k] = v
                yield 'signer-' + name, (i, k), mut(f)
        if not nd.sign_cons and nd.rule_name:
            def f(m, i=i):
                m.nodes[i].sign_cons = [n]
            yield 'signer-added-beyond', (i,), mut(f)
        # signer ids that stay in range: the documented rule ("refers to an existing node") holds, also when the new
        # id closes a signing cycle among the nodes (the node itself / a node it signs) - no documented sanity rule of
        # the binary format speaks of cycles, so no outcome is prescribed; accepted models are queried under the budget
        if nd.rule_name:
            signed_by_me = next((q for q in range(n) if i in base.nodes[q].sign_cons), None)
            for name, v in (('self', i), ('signee', signed_by_me), ('root', start)):
                if v is None or (name == 'root' and v == i):
                    continue

                def f(m, i=i, v=v):
                    if m.nodes[i].sign_cons:
                        m.nodes[i].sign_cons[0] = v
                    else:
                        m.nodes[i].sign_cons = [v]
                yield 'signer-inrange-' + name, (i,), mut(f)
        for j, e in enumerate(nd.p_edges):
            yield 'tag-missing', (i, j), setattr_(['nodes', i, 'p_edges', j, 'tag'], None)
            for a, c in enumerate(e.cons_sets):
                for b, o in enumerate(c.options):
                    def opt(m, i=i, j=j, a=a, b=b):
                        return m.nodes[i].p_edges[j].cons_sets[a].options[b]

                    def f0(m):
                        o = opt(m); o.value = None; o.tag = None; o.fn = None
                    yield 'option-0-branches', (i, j, a, b), mut(f0)

                    def f2(m):
                        o = opt(m)
                        if o.value is None:
                            o.value = K.comp('x')
                        if o.tag is None and o.fn is None:
                            o.tag = 1
                    yield 'option-2-branches', (i, j, a, b), mut(f2)

                    def f3(m):
                        o = opt(m)
                        o.value = o.value if o.value is not None else K.comp('x')
                        o.tag = o.tag if o.tag is not None else 1
                        if o.fn is None:
                            o.fn = bny.UserFnCall(); o.fn.fn_id = '$eq'; o.fn.args = []
                    yield 'option-3-branches', (i, j, a, b), mut(f3)

                    def ftf(m):                      # Tag + UserFn, no Value
                        o = opt(m)
                        o.value = None
                        o.tag = o.tag if o.tag is not None else 1
                        if o.fn is None:
                            o.fn = bny.UserFnCall(); o.fn.fn_id = '$eq'; o.fn.args = []
                    yield 'option-tag+fn', (i, j, a, b), mut(ftf)

                    def fev(m):                      # an EMPTY Value element next to a Tag or UserFn
                        o = opt(m)
                        o.value = b''
                        if o.tag is None and o.fn is None:
                            o.tag = 1
                    yield 'option-emptyvalue+other', (i, j, a, b), mut(fev)


# ------------------------------------------------------------------ TLC: judge (LvsJudge13) and enumeration (LvsEnum13)

def judge13(ctx, recs, tag, procs=4):
    """lvskit.judge with the module LvsJudge13 (kind "w" judged by J13wp: WellFormed, PatternIsOwnSigner, NodeSignCycle,
    NoSelfSigner, Sane; every other kind by LvsJudge!Judge).  Returns {sid: verdict}."""
    from concurrent.futures import ThreadPoolExecutor
    if not recs:
        return {}
    cfg = K.scratch('LvsJudge13_%s.cfg' % tag)
    tlc.write_cfg(cfg, spec=None, init='J13Init', next_='JNext', constants=K.JUDGE_CONSTS)
    nsh = max(1, min(procs, len(recs) // 8 or 1))
    files = []
    for k in range(nsh):
        fn = K.scratch('lvs-%s-%s-%d.ndjson' % (tag, ctx.tier, k))
        with open(fn, 'w') as f:
            for r in recs[k::nsh]:
                f.write(json.dumps(r) + '\n')
        files.append(fn)
    with ThreadPoolExecutor(nsh) as ex:
        results = list(ex.map(lambda fn: tlc.run('LvsJudge13', cfg, workers=1, heavy=False, env={'LVS_IN': fn},
                                                 tag='lvsj13', timeout=3000), files))
    out = {}
    agg = tlc.TlcResult()
    for r in results:
        for v in K.parse_prints(r.out):
            out[v[1]] = v[3]
        agg.distinct += r.distinct
        agg.generated += r.generated
        agg.wall = max(agg.wall, r.wall)
    ctx.add_tlc('LvsJudge13 %s (%d records, %d shards)' % (tag, len(recs), nsh), agg)
    missing = [r['sid'] for r in recs if r['sid'] not in out]
    if missing:
        raise tlc.MachineryError('LvsJudge13 printed no verdict for records %s:\n%s' % (missing[:5], results[0].out[-2000:]))
    return out


def enum13_run(ctx, stride, fs, procs):
    """LvsEnum13 (families RedefTemp, SharedSign) in `procs` interleaved shards -> printed <<"W13", ...>> tuples."""
    from concurrent.futures import ThreadPoolExecutor
    fs = min(stride, fs)

    def one(j):
        cfg = K.scratch('LvsEnum13_%s_%d.cfg' % (ctx.tier, j))
        tlc.write_cfg(cfg, spec=None, init='E13Init', next_='ENext', constants={
            'MaxNodes': 1, 'MaxLen': 0, 'Corrupt': '"none"', 'CountSteps': 'FALSE', 'DevPrebound': 'FALSE',
            'Mode': '"c13"', 'Stride': stride * procs, 'Offset': ctx.seed % stride + j * stride,
            'FocusStride': fs * procs, 'FocusOffset': ctx.seed % fs + j * fs})
        return tlc.run('LvsEnum13', cfg, workers=1, heavy=False, tag='lvse13', timeout=3000)
    with ThreadPoolExecutor(procs) as ex:
        rs = list(ex.map(one, range(procs)))
    agg = tlc.TlcResult()
    items = []
    for r in rs:
        agg.distinct += r.distinct
        agg.generated += r.generated
        agg.wall = max(agg.wall, r.wall)
        items += K.parse_prints(r.out, 'W13')
    ctx.add_tlc('LvsEnum13 stride=%d focus=%d (%d inputs)' % (stride, fs, len(items)), agg)
    if not items:
        raise tlc.MachineryError('LvsEnum13 produced no input:\n%s' % rs[0].out[-2000:])
    return items


# ------------------------------------------------------------------ run

def run(ctx):
    ctx.rule = ('non-trivial = distinct (schema, injected error kind, position), distinct (model, corrupted field, new '
                'value) and distinct (accepted model, query) executed under the step budget')
    ctx.assumptions = ['the documented sanity rules are read over the nodes reachable from the root',
                       '"name pattern is its own signer" is read coarsely (expanded name with constraints and the '
                       'identity of temporaries forgotten), so that only clearly acyclic schemas must be accepted',
                       'non-termination is judged by a step budget of %d lines per loop iteration allowed by the '
                       'spec bound LvsTree!StepBudget' % LINES_PER_ITERATION]
    procs = ctx.pick(4, 8)
    if 'A' in ctx.stages:
        stage_a(ctx, procs)
    if 'B' in ctx.stages:
        stage_b(ctx, procs)
    if 'C' in ctx.stages:
        stage_c(ctx, procs)


def stage_a(ctx, procs):
    B = tlc.BUILD
    mn, ml = ctx.pick((3, 2), (4, 3))
    safe = c11.walk_cfg(K.scratch('LvsTree_walk_c13_%s.cfg' % ctx.tier), mn, ml,
                        invariants=['StepsBounded', 'NoStall', 'StackShape'], properties=['Terminates'])
    cor = c11.walk_cfg(K.scratch('LvsTree_walk_c13_cor.cfg'), ctx.pick(2, 3), 2, corrupt='parent', count=False,
                       properties=['TerminatesIfSane'])
    w1 = c11.walk_cfg(K.scratch('LvsTree_walk_c13_w1.cfg'), 2, 1, corrupt='parent', count=False,
                      properties=['Terminates'])
    w2 = c11.walk_cfg(K.scratch('LvsTree_walk_c13_w2.cfg'), 2, 1, corrupt='parent', count=False,
                      properties=['W_RootChildrenWaived'])
    w3 = c11.walk_cfg(K.scratch('LvsTree_walk_c13_w3.cfg'), 2, 1, corrupt='parent', count=False,
                      properties=['W_SaneIsEnough'])
    res = K.par([lambda: K.run_tlc('LvsTree', safe, coverage=True, workers=ctx.pick(4, 16)),
                 lambda: K.run_tlc('LvsTree', cor, workers=ctx.pick(2, 8)),
                 lambda: K.run_tlc('LvsTree', w1, workers=1, heavy=False),
                 lambda: K.run_tlc('LvsTree', w2, workers=1, heavy=False),
                 lambda: K.run_tlc('LvsTree', w3, workers=1, heavy=False)])
    for name, r in zip(('termination (<>Done), step bound, no stall on sane trees MaxNodes=%d MaxLen=%d' % (mn, ml),
                        'termination if Sane and the root has no parent, parent-corrupted trees'), res[:2]):
        ctx.add_tlc('LvsTree walk machine: ' + name, r)
        if r.violated:
            ctx.violation('C13/spec/LvsTree/%s' % r.violated, 'TLC: %s violated by the walk machine (%s)' % (r.violated, name),
                          {'kind': 'spec', 'trace': r.errtrace})
    for a in c11.WALK_ACTS:
        if res[0].ok and res[0].coverage.get(a, (0, 0))[1] == 0:
            raise tlc.MachineryError('vacuous: action %s of the walk machine never taken' % a)
    if not res[2].violated:
        raise tlc.MachineryError('witness: no parent-corrupted tree makes the machine loop (termination check vacuous)')
    if not res[3].violated:
        raise tlc.MachineryError('witness: leaving the parent links of the root children unchecked is harmless?')
    if res[4].violated != 'W_SaneIsEnough':
        raise tlc.MachineryError('witness: the documented rules alone seem to guarantee termination (root with a parent)')
    ctx.note('A: machine terminates on all sane trees within StepBudget and without stalling (%d states); on %d states of '
             'parent-corrupted trees it terminates whenever Sane and the root has no parent; witnesses: an insane tree '
             'loops, so does one that only breaks the parent rule at a child of the root, and so does a sane tree whose '
             'root names a parent' % (res[0].distinct, res[1].distinct))


def names_for(alpha, L, rng, k):
    alln = K.names_upto(alpha, L)
    short = [n for n in alln if len(n) <= 2]
    rest = [n for n in alln if len(n) > 2]
    rng.shuffle(rest)
    return short + rest[:k]


def stage_b(ctx, procs):
    # ---- (1) ill-formed schema family
    (names, items), (tnames, titems), items13 = K.par([
        lambda: c11.enum_run(ctx, 'illformed', ctx.pick(19, 1), procs, tag='b', fs=8),     # TwinBad: every 8th
        lambda: c11.enum_run(ctx, 'trees', ctx.pick(5, 1), ctx.pick(2, procs), maxnodes=3, maxlen=2,
                             corrupt='parent', tag='t'),
        # (strides coprime to the sizes of the families' dimensions 2, 3, 4, 5: an index stride samples every dimension)
        lambda: enum13_run(ctx, ctx.pick(37, 1), ctx.pick(7, 1), ctx.pick(1, procs))])
    seen = {}
    for it in items:
        rules, wf, why, noself = to_json(it[2]), it[3], it[4], it[5]
        text = K.render(rules)
        oc, ck, msg, note = K.build2(text)
        K.recompile_violation(ctx, 'C13', note, text)
        ctx.traces += 1
        ctx.evaluations += 1
        seen[why] = seen.get(why, 0) + 1
        ctx.nt('Bw%d' % it[1])
        if not wf and oc != 'SemanticError':
            ctx.violation('C13/compile_lvs/ill-formed-not-rejected/%s/%s' % (why, oc),
                          'ill-formed schema (%s) gives %s %s:\n%s' % (why, oc, msg, text), {'kind': 'w', 'rules': rules})
        elif wf and noself and oc != 'ok':
            ctx.violation('C13/compile_lvs/well-formed-rejected/%s/%s' % (oc, msg_class(msg)),
                          'well-formed schema without a self-signing name pattern rejected (%s: %s):\n%s' % (oc, msg, text),
                          {'kind': 'w', 'rules': rules})
        ctx.sample({'kind': 'B-schema', 'text': text, 'reference': why, 'outcome': oc}, limit=2)
    for w in ('undefined-or-temporary-reference', 'reference-cycle', 'undefined-or-temporary-signer', 'signing-cycle',
              'bad-constraint-pattern', 'well-formed'):
        if w not in seen:
            raise tlc.MachineryError('ill-formed family never exercises %s' % w)
    ctx.note('B: %d enumerated schemas executed on compile_lvs + Checker: %s' % (len(items), seen))
    # ---- (3) a rule defined several times with temporaries of its own per definition; rules that share a name pattern
    seen13 = {}
    texts13 = [K.render(to_json(it[2])) for it in items13]
    for it, text, (oc, msg, model, loadok) in zip(items13, texts13, K.build_many(texts13, procs)):
        rules, wf, why, noself, own = to_json(it[2]), it[3], it[4], it[5], it[6]
        fam = 'redefined-rule' if rules[0]['id'] == '#r1' else 'shared-pattern'
        ctx.traces += 1
        ctx.evaluations += 1
        ctx.nt('Bx%d' % it[1])
        if own and noself:
            raise tlc.MachineryError('LvsTree!PatternIsOwnSigner without a loop in the coarse reading (Lvs!NoSelfSigner):\n' + text)
        cls = why if not wf else 'pattern-is-own-signer' if own else 'well-formed' if noself else 'coarse-loop-only'
        seen13[fam + '/' + cls] = seen13.get(fam + '/' + cls, 0) + 1
        if not wf and oc != 'SemanticError':
            ctx.violation('C13/compile_lvs/%s/ill-formed-not-rejected/%s/%s' % (fam, why, oc),
                          'ill-formed schema (%s) gives %s %s:\n%s' % (why, oc, msg, text), {'kind': 'w', 'rules': rules})
        elif wf and own and oc != 'SemanticError':
            ctx.violation('C13/compile_lvs/%s/pattern-signing-cycle-not-rejected/%s' % (fam, oc),
                          'a name pattern shared by two rules is its own signer (no rule identifier is on a loop), yet '
                          'compile_lvs + Checker give %s %s:\n%s' % (oc, msg, text), {'kind': 'w', 'rules': rules})
        elif wf and noself and oc != 'ok':
            ctx.violation('C13/compile_lvs/%s/well-formed-rejected/%s/%s' % (fam, oc, msg_class(msg)),
                          'well-formed schema without a self-signing name pattern rejected (%s: %s):\n%s' % (oc, msg, text),
                          {'kind': 'w', 'rules': rules})
        elif wf and noself and not loadok:
            ctx.violation('C13/compile_lvs/%s/well-formed-model-not-loadable' % fam,
                          'the saved model of a well-formed schema is refused by Checker.load:\n%s' % text,
                          {'kind': 'w', 'rules': rules})
        ctx.sample({'kind': 'B-schema13', 'text': text, 'reference': cls, 'outcome': oc}, limit=2)
    for w in ('redefined-rule/well-formed', 'redefined-rule/bad-constraint-pattern', 'shared-pattern/well-formed',
              'shared-pattern/pattern-is-own-signer', 'shared-pattern/signing-cycle'):
        if w not in seen13:
            raise tlc.MachineryError('LvsEnum13 sample never exercises %s (%s)' % (w, seen13))
    ctx.note('B: %d enumerated schemas of the families RedefTemp / SharedSign executed on compile_lvs + Checker: %s'
             % (len(items13), json.dumps(seen13, sort_keys=True)))
    # ---- (2) small trees and every parent-link corruption
    nacc = nins = 0
    for it in titems:
        tree, sane, why = it[2], it[3], it[4]
        wire = bytes(c11.model_from_tree(tree).encode())
        oc, ck = load_outcome(wire)
        ctx.traces += 1
        ctx.evaluations += 1
        ctx.nt('Bt%d' % it[1])
        nins += (not sane)
        root_child = any((not nd['hp'] or nd['parent'] != real_parent(tree, nd['id'])) and real_parent(tree, nd['id']) == 0
                         for nd in seq(tree['nodes']) if nd['id'] != 0)
        at = '@rootchild' if root_child else '@inner'
        if not sane and oc != 'LvsModelError':
            ctx.violation('C13/Checker.load/tree-parent%s/%s/%s' % (at, why, oc),
                          'tree %d breaks the sanity rule "%s" but Checker.load gives %s' % (it[1], why, oc),
                          {'kind': 'tree', 'tree': to_json(tree)})
        if ck is not None:
            nacc += 1
            bad = query_terminates(ck, [n for n in tnames], [])
            ctx.evaluations += len(tnames)
            if bad:
                rootp = seq(tree['nodes'])[0]['hp']
                ctx.violation('C13/Checker.match/tree-parent%s/step-budget-exceeded' % ('@root' if rootp else at),
                              'accepted tree %d (%s): %s' % (it[1], why, bad), {'kind': 'tree', 'tree': to_json(tree)})
    ctx.note('B: %d enumerated trees (%d insane) executed on Checker.load; %d accepted and queried under the step budget'
             % (len(titems), nins, nacc))


def real_parent(tree, i):
    for nd in seq(tree['nodes']):
        for e in list(seq(nd['v'])) + list(seq(nd['p'])):
            if e['dest'] == i:
                return nd['id']
    return None


def stage_c(ctx, procs):
    rng = ctx.rng
    nschema = ctx.pick(12, 300)           # schemas that get every injection
    ncorrupt = ctx.pick(14, 150)          # schemas whose compiled model is corrupted field by field
    gen = K.Gen(rng, p_forward=0.12, force_twin=0.5, foreign=0.3, flat=0.3)
    wrecs, srecs, meta = [], [], {}
    sid = 0
    ninj = ncor = nterm = nlater = nvar = 0
    kinds_seen = {}
    originals = []
    jobs = []                              # (sid, kind, pos, text, rules)
    for s in range(max(nschema, ncorrupt)):
        rules = gen.schema()
        text = K.render(rules)
        # every compilation of a well-formed schema must give a loadable model: compile twice (see lvskit.build2);
        # the record judged below is the outcome of the second compilation when the two differ
        oc, ck, msg, note = K.build2(text)
        K.recompile_violation(ctx, 'C13', note, text)
        ctx.traces += 1
        sid += 1
        rec = {'sid': sid, 'kind': 'w', 'rules': rules, 'outcome': oc, 'loadok': False}
        if ck is not None:
            wire = ck.save()
            lo, ck2 = load_outcome(wire)
            rec['loadok'] = lo == 'ok'
            rec['model'] = K.dump_model(ck.model)
            originals.append((rules, text, ck, wire))
        wrecs.append(rec)
        meta[sid] = ('original', (), text, msg)
        ctx.sample({'kind': 'C-schema', 'text': text, 'outcome': oc}, limit=2)
        if s >= nschema:
            continue
        multi = {r['id'] for k, r in enumerate(rules) if any(q['id'] == r['id'] for q in rules[:k])}
        # the kinds added in round 11 (shared name patterns, temporaries of other definitions, well-formed variations):
        # every schema in the thorough tier, every second one in the quick tier
        r11 = (not ctx.quick) or s % 2 == ctx.seed % 2
        for kind, pos, bad in list(injections(rules, r11)) + (list(variations(rules)) if r11 else []):
            sid += 1
            ninj += 1
            nvar += kind.startswith('redefined-')
            # the error sits in a second or later definition of a rule
            nlater += bool(pos) and all(isinstance(i, int) for i in pos[:1]) and any(
                q['id'] == rules[pos[0]]['id'] for q in rules[:pos[0]]) and kind.split('@')[0] in (
                'undefined-signer', 'temporary-signer', 'signing-cycle-1', 'signing-cycle-2', 'signing-cycle-3')
            kinds_seen[kind] = kinds_seen.get(kind, 0) + 1
            ctx.nt('Ci%d/%s/%s' % (s, kind, pos))
            jobs.append((sid, kind, pos, K.render(bad), bad))
    # size as a dimension: well-formed schemas whose model has several hundred nodes (node ids, parent links and signer
    # ids beyond 256 - seed round 7: ids compared by object identity after a save / load); judged like any other
    # well-formed schema (accepted, and the saved model is loaded again), queried on a few names of its own
    for big in range(ctx.pick(2, 6)):
        nrules = 70 + 25 * big
        rules = [{'id': '#anchor', 'name': [{'k': 'v', 'v': 'root%d' % big}, {'k': 'p', 'p': '_k'}], 'cons': [], 'sign': []}]
        for i in range(nrules):
            rules.append({'id': '#b%d' % i,
                          'name': [{'k': 'v', 'v': 'p%d' % i}, {'k': 'p', 'p': 'a'}, {'k': 'v', 'v': 'q%d' % (i % 7)},
                                   {'k': 'p', 'p': '_t'}, {'k': 'v', 'v': 's%d' % i}],
                          'cons': [], 'sign': ['#anchor'] if i % 3 else (['#b%d' % (i - 1)] if i else ['#anchor'])})
        text = K.render(rules)
        oc, ck, msg, note = K.build2(text)
        ctx.traces += 1
        sid += 1
        rec = {'sid': sid, 'kind': 'w', 'rules': rules, 'outcome': oc, 'loadok': False}
        if ck is not None:
            lo, ck2 = load_outcome(ck.save())
            rec['loadok'] = lo == 'ok'
            rec['model'] = K.dump_model(ck.model)
            ctx.extra['largest_model_nodes'] = max(ctx.extra.get('largest_model_nodes', 0), len(ck.model.nodes))
            if ck2 is not None:
                from ndn import encoding as _enc
                for i in (0, nrules // 2, nrules - 1):
                    nmq = _enc.Name.from_str('/p%d/x/q%d/y/s%d' % (i, i % 7, i))
                    got = sorted(r for m in ck2.match(nmq) for r in m[0])
                    if got != ['#b%d' % i]:
                        ctx.violation('C13/Checker.load/large-model/match-differs',
                                      'model of %d nodes loaded from bytes: match(%s) -> %s' % (len(ck.model.nodes), _enc.Name.to_str(nmq), got),
                                      {'kind': 'text', 'text': text})
                        break
        wrecs.append(rec)
        meta[sid] = ('original', (), 'large schema of %d rules (#b<i>: "p<i>"/a/"q<i mod 7>"/_t/"s<i>" <= ...)' % nrules, msg)
    for (jsid, kind, pos, btext, bad), (boc, bmsg, bmodel, bload) in zip(jobs, K.build_many([j[3] for j in jobs], procs)):
        ctx.evaluations += 1
        r2 = {'sid': jsid, 'kind': 'w', 'rules': bad, 'outcome': boc, 'loadok': bload}
        if bmodel is not None:
            r2['model'] = bmodel
        wrecs.append(r2)
        meta[jsid] = (kind, pos, btext, bmsg)
    # (ii) + (iii)
    for k, (rules, text, ck, wire) in enumerate(originals):
        alpha = K.alphabet(rules, rng)
        qn = names_for(alpha, 3, rng, 25)
        qp = [(rng.choice(qn), rng.choice(qn)) for _ in range(10)]
        bad = query_terminates(ck, qn, qp)
        nterm += len(qn) + len(qp)
        ctx.nt('Ct%d' % k)
        if bad:
            ctx.violation('C13/Checker.match/compiled-model/step-budget-exceeded', 'compiled model of\n%s\n%s' % (text, bad),
                          {'kind': 'text', 'text': text})
        if k >= ncorrupt or len(ck.model.nodes) > MAX_NODES_CORRUPTED:
            continue                       # big models (DNF blow-up) cost seconds per corruption and add no new kind
        from ndn.app_support.light_versec import binary as bny
        for kind, pos, (cw, seen_model) in corruptions(wire):
            sid += 1
            ncor += 1
            kinds_seen[kind] = kinds_seen.get(kind, 0) + 1
            ctx.nt('Cc%d/%s/%s' % (k, kind, pos))
            oc, cck = load_outcome(cw)
            ctx.evaluations += 1
            srecs.append({'sid': sid, 'kind': 's', 'model': seen_model, 'outcome': oc})
            meta[sid] = (kind, pos, text, cw.hex())
            if cck is not None:
                bad = query_terminates(cck, qn[:40], qp[:3])
                nterm += len(qn[:40]) + 3
                if bad:
                    ctx.violation('C13/Checker.match/%s/step-budget-exceeded' % kind,
                                  'model of\n%saccepted after corruption %s at %s: %s' % (text, kind, pos, bad),
                                  {'kind': 'wire', 'wire': cw.hex(), 'corruption': kind, 'pos': list(pos), 'text': text})
    ctx.note('C: %d generated schemas, %d injected static errors, %d single-field corruptions of %d compiled models, '
             '%d step-bounded queries on accepted models' % (nschema, ninj, ncor, sum(1 for k, o in enumerate(originals) if k < ncorrupt and len(o[2].model.nodes) <= MAX_NODES_CORRUPTED), nterm))
    ctx.note('C: kinds exercised: %s' % json.dumps(kinds_seen, sort_keys=True))
    ctx.note('C: %d of the injected signing errors sit in a second or later definition of a rule defined several times' % nlater)
    ctx.note('C: %d of the injected schemas are well-formed variations (a sibling definition without the constrained temporary)' % nvar)
    if nschema >= 10 and not nlater:
        raise tlc.MachineryError('C: no signing error was injected into a later definition of a rule (dimension vacuous)')
    ctx.extra['kinds_exercised'] = kinds_seen
    ver = judge13(ctx, wrecs + srecs, 'c13c', procs)
    stats = {}
    for rec in wrecs + srecs:
        cls = ver[rec['sid']][0]
        head = cls.split('/')[0] + '/' + cls.split('/')[1] if cls.startswith('ok/') else cls.split('/')[0]
        stats[head] = stats.get(head, 0) + 1
        if cls.startswith('ok/'):
            continue
        kind, pos, text, extra = meta[rec['sid']]
        if rec['kind'] == 'w':
            sig = 'C13/compile_lvs/%s' % cls
            if kind.startswith('redefined-'):              # a well-formed variation
                sig = 'C13/compile_lvs/%s/%s' % (kind, cls)
                if cls.startswith('well-formed-rejected'):
                    sig += '/' + msg_class(extra)
            elif cls.startswith('well-formed-rejected'):
                sig += '/' + msg_class(extra)
            elif kind != 'original':
                sig = 'C13/compile_lvs/%s/%s' % (kind, cls)
            ctx.violation(sig, '%s (%s at %s; message %r):\n%s' % (cls, kind, pos, extra, text),
                          {'kind': 'w', 'rules': rec['rules'], 'injected': kind, 'pos': list(pos)})
        else:
            ctx.violation('C13/Checker.load/%s/%s' % (kind, cls),
                          '%s after corruption %s at %s of the model of\n%s' % (cls, kind, pos, text),
                          {'kind': 'wire', 'wire': extra, 'corruption': kind, 'pos': list(pos), 'text': text})
    ctx.note('C: verdicts %s' % json.dumps(stats, sort_keys=True))
    for need in ('ok/ill-formed-rejected', 'ok/well-formed-accepted', 'ok/insane-rejected', 'ok/sane'):
        if need not in stats:
            raise tlc.MachineryError('vacuous: no record judged %s' % need)
    # the dimensions of round 11 are exercised: injected loops through a shared name pattern are judged to BE such loops
    # (not merely ill-formed for another reason), the variations are judged well-formed, foreign temporaries ill-formed
    by_kind = {}
    for rec in wrecs:
        kind = meta[rec['sid']][0]
        head = kind.split('@')[0]
        head = 'redefined' if head.startswith('redefined-') else head
        c = reference_class(ver[rec['sid']][0])
        by_kind.setdefault(head, {})
        by_kind[head][c] = by_kind[head].get(c, 0) + 1
    ctx.extra['round11_reference'] = {k: by_kind[k] for k in sorted(by_kind)
                                      if k.startswith(('pattern-', 'redefined', 'constrains-temporary-of'))}
    ctx.note('C: what the reference says about the kinds added in round 11: %s'
             % json.dumps(ctx.extra['round11_reference'], sort_keys=True))
    if nschema >= 10:
        # (quick tier: half a dozen schemas carry these kinds; the two that need a particular shape of schema - a second
        # rule that can be put on the loop, a definition with a temporary pattern - are demanded of the thorough tier only)
        needs = [('pattern-signing-cycle-1', 'pattern-is-own-signer'),
                 ('constrains-temporary-of-later-definition', 'ill-formed/bad-constraint-pattern'),
                 ('constrains-temporary-of-earlier-definition', 'ill-formed/bad-constraint-pattern')]
        if not ctx.quick:
            needs += [('pattern-signing-cycle-2', 'pattern-is-own-signer'), ('redefined', 'well-formed')]
        for head, need in needs:
            if need not in by_kind.get(head, {}):
                raise tlc.MachineryError('vacuous: no %s schema is %s for the reference (%s)' % (head, need, by_kind.get(head)))


def reference_class(cls):
    """what the reference says about the INPUT of a kind-"w" record, whatever the library did with it
    (LvsJudge13!J13wp): ill-formed/<why> | pattern-is-own-signer | coarse-loop-only | well-formed"""
    p = cls.split('/')
    if p[0] == 'ok':
        p = p[1:]
    if p[0] in ('ill-formed-rejected', 'ill-formed-not-rejected'):
        return 'ill-formed/' + p[1]
    if p[0] in ('pattern-signing-cycle-rejected', 'pattern-signing-cycle-not-rejected'):
        return 'pattern-is-own-signer'
    if p[0] in ('no-obligation-self-signer', 'accepted-model-has-signing-cycle'):
        return 'coarse-loop-only'
    return 'well-formed'


def replay(ctx, path):
    with open(path) as f:
        obj = json.load(f)
    k = obj.get('kind')
    if k == 'recompile':
        return c11.replay(ctx, path)
    if k == 'w':
        text = K.render(obj['rules'])
        oc, ck, msg = K.build(text)
        print(text, '->', oc, msg)
        rec = {'sid': 1, 'kind': 'w', 'rules': obj['rules'], 'outcome': oc, 'loadok': ck is not None}
        if ck is not None:
            rec['model'] = K.dump_model(ck.model)
            rec['loadok'] = load_outcome(ck.save())[0] == 'ok'
        v = judge13(ctx, [rec], 'c13r', 1)[1][0]
        print('judge:', v)
        return 0 if v.startswith('ok/') else 1
    if k == 'wire':
        from ndn.app_support.light_versec import binary as bny
        wire = bytes.fromhex(obj['wire'])
        oc, ck = load_outcome(wire)
        print('corruption %s at %s; Checker.load ->' % (obj.get('corruption'), obj.get('pos')), oc)
        rec = {'sid': 1, 'kind': 's', 'model': K.dump_model(bny.LvsModel.parse(wire)), 'outcome': oc}
        v = K.judge(ctx, [rec], 'c13r', 1)[1][0]
        print('judge:', v)
        rc = 0 if v.startswith('ok/') else 1
        if ck is not None:
            bad = query_terminates(ck, K.names_upto(['x', 'y', 'u'], 3), [])
            print('termination:', bad or 'all queries within the step budget')
            rc = rc or (1 if bad else 0)
        return rc
    if k == 'tree':
        wire = bytes(c11.model_from_tree(obj['tree']).encode())
        oc, ck = load_outcome(wire)
        print('Checker.load ->', oc)
        from ndn.app_support.light_versec import binary as bny
        rec = {'sid': 1, 'kind': 's', 'model': K.dump_model(bny.LvsModel.parse(wire)), 'outcome': oc}
        v = K.judge(ctx, [rec], 'c13r', 1)[1][0]
        print('judge:', v)
        rc = 0 if v.startswith('ok/') else 1
        if ck is not None:
            bad = query_terminates(ck, K.names_upto(['a', 'b', 'c'], 2), [])
            print('termination:', bad or 'all queries within the step budget')
            rc = rc or (1 if bad else 0)
        return rc
    print(json.dumps(obj, indent=1)[:4000])
    return 0
