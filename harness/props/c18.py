"""C18 - state-vector sync. Spec: Svs.tla / SvsTrace.tla. Executor: harness/svskit.py.

A  TLC on Svs: nodes {self,n1,n2}, sequence numbers 0..MaxSeq, *every* received packet over the
   bound (all partial vectors, over-claiming, entries without node id / without sequence number
   in both encoding orders, vectors naming a node twice with different sequence numbers, undecodable
   Interests, vectors in a non-canonical encoding - kind "svl"), Publish bursts, TimerFire, Tick, and
   PublishThenRecv (publications and then a packet handled before the timer task has run: the two critical
   sections inside one loop iteration; the announcement must be made within the step), event
   sequences of ANY length (the state space is finite, so no event bound is needed; this subsumes
   the "up to 5/7 events" of DESIGN 6). Mode "open" (what C18 leaves open is nondeterministic)
   and Mode "impl" (open choices resolved as sync.py does). All properties are action properties;
   vacuity = every action taken + every witness transition kind seen. The two named deviations
   (aggLocal, noSeq, postponed) must each be *caught* by the properties (spec-level sensitivity). One more run keeps the history
   variable mem (the decodable packet most recently ignored / accepted): the same vector again, after
   the state it is judged against has changed (witnesses AgainAccepted / AgainOutdated).
B  the Mode "impl" state graph (TLC dump), with both deviations enabled as alternative edges, is
   covered on the fly on the real SvsInst: every stimulus (edge label minus the choice
   parameter) enabled in a graph state is applied to the instance in that state; the projection
   of the instance selects the successor edge(s). Only deviation edges match -> finding; no
   edge matches -> the recorded execution is judged by SvsTrace in Mode "open" (so that only
   C18, not sync.py's present choices, can reject it). The graph has no memory of packets; the walk
   adds it: every over-claiming vector that was ignored is delivered again, byte for byte, after
   publications have made it acceptable (Cover.forced).
C  random histories (5 nodes, ~100 events, sequence numbers within 20 of a base of 0, 250 or 65530;
   up to three peers that repeat their vector byte for byte until they have a new one - whatever
   became of it the first time and whatever was published since; vectors naming nodes more than once)
   recorded from the real instance and judged by SvsTrace: pass 1 deviations off, pass 2 (rejected
   ones) deviations on. Each history runs in a process with two more instances: a sibling of another
   sync group that has state before the instance is created and whose events interleave (instance
   independence), and a peer of the same group that is fed every sync Interest the instance emits,
   as it is on the wire (loop-back: the peer must accept it and merge exactly the announced vector).
   PublishThenRecv events are part of the histories (svskit.Scenario._validator realises the order through the
   real receive path). A sweep delivers every member of the byte-level packet classes: "cut" (the encoding of a
   vector - minimal, or with the numbers of one kind in a 3 / 5 / 9-octet form - cut at every octet: must be
   ignored entirely and quietly) and "svl" (non-minimal numbers, trailing octets, unknown elements: read as the
   vector or ignored, never an exception); in B and C the packets of these kinds take the members in turn.
   Scale (stage_c_scale): the same random histories for groups of 24 (quick) / 20, 40, 100 (thorough) nodes with
   generated names - vectors of a few entries and of the whole group, i.e. up to 252 octets and 253+ (a three-octet
   Length) - and with sequence numbers at every magnitude a NonNegativeInteger has: history i starts the own and
   the peers' numbers just below 2^31, 2^32, 2^53, 2^63, 2^64 - 1 or above 2^40 (MAGNITUDES; every class in every
   run, quick tier included). TLC has 32-bit integers: these executions are recorded in scaled classes (Svs.tla
   header; svskit.SeqMap - the model value HiSeq + k stands for B + k, a number of neither class for BadSeq), which
   is exact for a model that only compares sequence numbers and adds to the own one. The executions of the instance,
   its sibling and its loop-back peer are judged in one SvsTrace run per group size (padded to the peer's group).
   Vacuity: witnesses ManyEntries / ManyEntriesOutdated / HighSeqPublish / HighSeqMerged / HighSeqSupEmit, and
   the executor's count of accepted vectors on either side of 253 octets. Signatures of steps at scale carry
   +253octets / +hiseq after the packet (or state) class.

Besides local_sv / emitted vectors / callback count the projection has the values returned by
new_data() (Svs!PublishedSeqs) and local_sv as seen inside the callback (Svs!CallbackSaw). The
group prefix has four components (an empty one, a typed one, one of type 65536); stimuli are
encoded and emitted vectors decoded by the executor's own TLV code, not by the library's model.

Every SvsInst the driver creates gets its group prefix and node id in the next pair of representations (svskit.REPS:
component list / tuple / with str elements, URI string, encoded Name in bytes / bytearray / writable or read-only
memoryview, list of bytearray components); writable buffers are overwritten after the constructor returned.
An exception out of the constructor / start(), or an instance whose public base_prefix / self_node_id follows the
overwritten buffer, is a finding C18/SvsInst/Init/...; the history then goes on with an instance made from plain lists.

Findings carry the signature of the named deviation that explains them
(C18/SvsInst/<action>/<property>/<deviation>) or, if none does,
C18/SvsInst/<action>/<packet class | state before>/<projection field(s)>[/<observed>].
"""
import hashlib, json, os, re
from collections import deque

from harness import tlc, graph
from harness.tlaval import seq
from harness import svskit
from harness.svskit import Scenario, NOSEQ, NOID, ROOTID

NODES3 = ['self', 'n1', 'n2']
NODES5 = ['self', 'n1', 'n2', 'n3', 'n4']
PROPS = ['Monotone', 'EntrywiseMax', 'OverclaimIgnored', 'MissingIffRaised', 'PublishEmitsFullVector',
         'HeardIsMerge', 'SuppressionDecision', 'EmitsOnlyLocal', 'OutdatedStartsSuppression', 'CallbackPublishEmits',
         'PublishThenRecvMerges', 'PublishThenRecvAnnounces']
INVS = ['TypeOK', 'OwnEntry', 'SteadyForgets']
WITNESSES = ['SupEmit', 'SupNoEmit', 'OverclaimWouldRaise', 'Incomparable', 'OlderNoCallback', 'DamagedAccepted',
             'DamagedRejected', 'UndecodableInSup', 'Burst', 'PublishInSup', 'SteadyEmit', 'HeardInSup', 'EnterSup',
             'ActRecvSV', 'ActPublish', 'ActTimerFire', 'ActTick', 'OutdatedZero',
             'CallbackPublish', 'CallbackPublishInSup', 'CallbackPublishTwice',
             'DupAccepted', 'DupOverclaimHidden', 'DupNotMax', 'AgainAccepted', 'AgainOutdated',
             'ActPublishThenRecv', 'PTRNotOutdated', 'PTROutdated', 'PTRRaises', 'PTRCallbackPublish',
             'PTRInSup', 'PTRCaughtUp', 'PTRStillOverclaims', 'PTRIgnored', 'LenientAccepted', 'LenientRejected',
             'ManyEntries', 'ManyEntriesOutdated', 'HighSeqPublish', 'HighSeqMerged', 'HighSeqSupEmit']
# need a large group / sequence numbers in the high class: recorded executions only (stage C, scale histories)
SCALE_WITNESSES = ('ManyEntries', 'ManyEntriesOutdated', 'HighSeqPublish', 'HighSeqMerged', 'HighSeqSupEmit')
DUP_WITNESSES = ('DupAccepted', 'DupOverclaimHidden', 'DupNotMax')      # need a packet alphabet with duplicates
AGAIN_WITNESSES = ('AgainAccepted', 'AgainOutdated')                    # need Remember = TRUE
LEN_WITNESSES = ('LenientAccepted', 'LenientRejected')                  # need a packet alphabet with kind "svl"
PTR_WITNESSES = tuple(x for x in WITNESSES if x.startswith('PTR') or x == 'ActPublishThenRecv')    # need MaxPre > 0
DEV_SIG = {'devAgg': ('C18/SvsInst/TimerFire/SuppressionDecision/devAgg',
                      'suppression period in which a second vector was heard ends without a sync Interest although '
                      'local_sv is newer than the merge of the vectors heard (aggregate() merges with local_sv)'),
           'devNoSeq': ('C18/SvsInst/RecvSV/MissingIffRaised/devNoSeq',
                        'vector with an entry that has no sequence number: entries before it are merged into '
                        'local_sv, then TypeError - on_missing_data is not called although an entry was raised'),
           'devPostponed': ('C18/SvsInst/PublishThenRecv/PublishThenRecvAnnounces/devPostponed',
                            'a sync Interest is handled after new_data() returned and before the timer task ran (same '
                            'loop iteration): sync_handler overwrites the next_sync_timing = 0 that new_data() set - the '
                            'publication is not announced promptly but a sync interval / suppression period later')}


MAX_DIAG = 40           # rejected executions diagnosed field by field per judge() call
MAX_SUSPECTS = 40       # stage B stops after this many executions no graph successor explains
MAX_JUDGED = 400        # executions handed to one judge() call in stage B (shortest first)
LAST_JUDGE = {'unexplained': 0, 'accepted': 0}   # of the last judge() call: not explained at all / accepted by the pure spec
DEV_OF = {'devAgg': 'aggLocal', 'devNoSeq': 'noSeq', 'devPostponed': 'postponed'}     # choice name -> member of the constant Dev
ALL_DEVS = ('aggLocal', 'noSeq', 'postponed')


def raised_sig(ev):
    """(sig, what) if the step was an undecodable sync Interest that made an exception escape sync_handler"""
    exc = ev.get('post', {}).get('raised')
    if not exc:
        return None
    member = ''
    if ev['p']['k'] == 'cut' and ev.get('x') is not None:
        comp, desc = svskit.WORLD.cuts()[ev['x']]
        member = ': state-vector component %s = vector %s' % (comp.hex(), desc)
    return ('C18/SvsInst/%s/%s/raised:%s' % (ev['a'], ev['p']['k'], exc),
            'an undecodable sync Interest (%s%s) is not ignored quietly: %s escapes sync_handler' % (ev['p']['k'], member, exc))


def finding(ctx, sig, what, obj):
    """collect findings per signature, keeping the shortest history; flushed at the end of run()"""
    box = ctx.extra.setdefault('_findings', {})
    cur = box.get(sig)
    size = (obj.get('earlier', 0), obj.get('at', 10 ** 9))
    if cur is None:
        box[sig] = {'what': what, 'obj': obj, 'n': 1, 'size': size}
    else:
        cur['n'] += 1
        if size < cur['size']:
            cur.update(what=what, obj=obj, size=size)


def report_faults(ctx, faults):
    """what went wrong when an SvsInst was created from some representation of its two names (Scenario.init_faults)"""
    for tail, what, obj in faults:
        finding(ctx, 'C18/SvsInst/Init/%s' % tail, what, obj)


def flush(ctx):
    for sig, f in sorted(ctx.extra.pop('_findings', {}).items()):
        for _ in range(f['n']):
            ctx.violation(sig, f['what'], f['obj'])


def consts(nodes, maxseq, packets, mode, dev, maxt, init=(0,), burst=2, sup=1, sync=9, jit=(0, 1), tick_ends=False,
           hint=False, react=2, remember=False, pre=0, prepackets=None):
    return {'NodeOrder': '<- Nodes%d' % len(nodes), 'MaxSeq': maxseq,
            'InitSeqs': '{%s}' % ','.join(map(str, init)),
            'Packets': packets if packets.startswith('{') else '<- %s' % packets,
            'PrePackets': packets if packets.startswith('{') else '<- %s' % (prepackets or packets),
            'Mode': '"%s"' % mode, 'Dev': '{%s}' % ','.join('"%s"' % d for d in dev),
            'SupBase': sup, 'SyncBase': sync, 'Jitter': '{%s}' % ','.join(map(str, jit)),
            'MaxT': maxt, 'MaxBurst': burst, 'MaxReact': react, 'MaxPre': pre, 'MaxEv': 0,
            'TickEnds': 'TRUE' if tick_ends else 'FALSE', 'UseHint': 'TRUE' if hint else 'FALSE',
            'Remember': 'TRUE' if remember else 'FALSE'}


# ------------------------------------------------------------------ stage A

def stage_a(ctx):
    w = int(os.environ.get('VERIF_WORKERS', 0)) or ctx.pick(4, 16)
    pk2 = ctx.pick('PacketsReplay', 'PacketsFull')
    runs = [('open', pk2, 2, 1, (0,), NODES3, False), ('impl', pk2, 2, 10, (0,), NODES3, False)]
    if not ctx.quick:
        runs += [('open', 'PacketsFull', 3, 1, (0, 1), NODES3, False), ('impl', 'PacketsPlain', 3, 10, (0, 1), NODES3, False)]
    # the same vector again (history variable mem: the decodable packet most recently ignored / accepted):
    # two nodes, so that the square of the packet alphabet stays small
    runs += [('open', 'PacketsAgain', ctx.pick(1, 2), 1, (0,), NODES3[:2], True)]
    for mode, pk, ms, maxt, init, nodes, remember in runs:
        name = 'Svs_A_%s_%s_%d' % (mode, pk, ms)
        cfg = os.path.join(tlc.BUILD, name + '.cfg')
        react = ctx.pick(1, 2)      # publications inside the missing-data callback (quick: B/C also cover 1 / 2)
        # publications in the loop iteration in which a packet is then handled (PublishThenRecv); the MaxSeq = 3 runs
        # take one, and the replay alphabet for the packet (measured: 4 x the transitions otherwise)
        pre = ctx.pick(1, 2) if ms < 3 else 1
        tlc.write_cfg(cfg, constants=consts(nodes, ms, pk, mode, (), maxt, init=init, react=react, remember=remember, pre=pre,
                                            prepackets='PacketsPre' if ctx.quick and mode == 'impl' else
                                            pk if ms < 3 or pk == 'PacketsPlain' else 'PacketsReplay'),
                      invariants=INVS, properties=PROPS + ['Witnesses'], view='ViewA')
        r = tlc.run('SvsMC', cfg, workers=w, heavy=not ctx.quick, tag=name)
        ctx.add_tlc('Svs exhaustive mode=%s packets=%s nodes=%d MaxSeq=%d%s, unbounded events' % (
            mode, pk, len(nodes), ms, ', last ignored / accepted packet remembered' if remember else ''), r)
        if r.violated:
            finding(ctx, 'C18/spec/%s/%s' % (mode, r.violated), 'TLC: %s violated in Svs (mode %s)' % (r.violated, mode),
                   {'kind': 'tlc', 'trace': r.errtrace})
            continue
        # (TLC's -coverage costs a factor 4 here; the Act* witnesses establish that every action is taken)
        seen = set(re.findall(r'<<"WITNESS", "(\w+)">>', r.out))
        if remember:
            want = AGAIN_WITNESSES
        else:
            want = [x for x in WITNESSES if x not in AGAIN_WITNESSES + SCALE_WITNESSES
                    and not (pk == 'PacketsPlain' and (x.startswith('Damaged') or x in DUP_WITNESSES + LEN_WITNESSES))
                    and not (pre == 0 and x in PTR_WITNESSES)
                    and not (react < 2 and x == 'CallbackPublishTwice')]
        miss = [x for x in want if x not in seen]
        if miss:
            raise tlc.MachineryError('vacuous: witness transitions never seen in %s: %s' % (name, miss))
    # the properties must reject each named deviation (otherwise they could not see the findings)
    for dev, expect in (('aggLocal', ('SuppressionDecision',)), ('noSeq', ('MissingIffRaised', 'EntrywiseMax')),
                        ('postponed', ('PublishThenRecvAnnounces',))):
        cfg = os.path.join(tlc.BUILD, 'Svs_A_dev_%s.cfg' % dev)
        tlc.write_cfg(cfg, constants=consts(NODES3, 2, 'PacketsNoDup', 'open', (dev,), 1, react=0,
                                            pre=1 if dev == 'postponed' else 0), invariants=INVS,
                      properties=PROPS, view='ViewA')
        r = tlc.run('SvsMC', cfg, workers=w, heavy=False, tag='Svs_A_dev')
        ctx.add_tlc('Svs with deviation %s (must violate %s)' % (dev, '/'.join(expect)), r)
        if r.violated not in expect:
            raise tlc.MachineryError('deviation %s is not caught by %s (TLC: %s)' % (dev, expect, r.violated))
        ctx.note('A: deviation %s violates %s (counterexample depth %d)' % (dev, r.violated, r.depth))


# ------------------------------------------------------------------ executor glue

def jpacket(p):
    """TLC packet value -> JSON-able packet."""
    return {'k': p['k'], 'es': [{'id': e['id'], 'seq': e['seq']} for e in seq(p['es'])] if p['es'] else []}


def edge_event(act, args):
    """(stimulus event for the executor / the trace, choice taken by the spec)"""
    if act == 'RecvSV':
        return {'a': act, 'p': jpacket(args[0]), 'j': args[1], 'r': args[3]}, args[2]
    if act == 'TimerFire':
        return {'a': act, 'j': args[0]}, args[1]
    if act == 'Publish':
        return {'a': act, 'n': args[0], 'j': args[1]}, 'norm'
    if act == 'Tick':
        return {'a': act, 'd': args[0]}, 'norm'
    if act == 'PublishThenRecv':        # (n, p, j, handler choice, r, announcement choice)
        return ({'a': act, 'n': args[0], 'p': jpacket(args[1]), 'j': args[2], 'r': args[4]},
                args[5] if args[5].startswith('dev') else args[3])
    raise ValueError(act)


def stim_key(ev):
    return json.dumps(ev, sort_keys=True)


def proj_state(st, pre=None, pn=0):
    """projection of graph state st; with the state before the step, also Svs!PublishedSeqs / Svs!CallbackSaw
    (pn: publications made in the step before the packet was handled - PublishThenRecv)"""
    p = {'local': dict(st['local']), 'out': [dict(v) for v in seq(st['out'])] if st['out'] else [],
         'missed': st['missed'], 'state': st['state'], 'timer': st['timer'], 'seq': st['selfSeq'],
         'ret': [], 'cbsaw': []}
    if pre is not None:
        p['ret'] = list(range(pre['selfSeq'] + 1, st['selfSeq'] + 1))
        if st['missed'] == 1:
            saw = dict(st['local'])
            saw['self'] = pre['selfSeq'] + pn
            p['cbsaw'] = [saw]
    return p


C18_FIELDS = ('local', 'out', 'missed', 'seq', 'ret', 'cbsaw')      # what the property names
SYNC_FIELDS = ('state', 'timer')                     # what keeps spec and instance in step


def diff(a, b, fields):
    return [f for f in fields if a[f] != b[f]]


def packet_class(p):
    if p['k'] != 'sv':
        return p['k']
    es = p['es']
    if not es:
        return 'empty'
    if any(e['id'] not in (NOID, ROOTID) and e['seq'] == NOSEQ for e in es):
        return 'noseq'
    if any(e['id'] in (NOID, ROOTID) for e in es):
        return 'noid'
    if len({e['id'] for e in es}) < len(es):
        return 'dup'                    # a node named more than once
    return 'plain'


def scale_tag(ev):
    """suffix of the packet / state class in a signature: the step is one of the scale dimensions (a vector of 253+
    octets was delivered; a sequence number of the high class - or of no class - is in the local vector)"""
    tag = ''
    if ev.get('big'):
        tag += '+253octets'
    vals = list(ev['post']['local'].values()) + [ev['post']['seq']]
    if any(isinstance(v, int) and (v >= svskit.HI or v == svskit.BADSEQ) for v in vals):
        tag += '+hiseq'
    return tag


def nontrivial(evs):
    """rule: a suppression period that ends by its timer, an over-claiming / damaged / undecodable
    packet, or a burst publication occurs in the history"""
    prev = 'Steady'
    for e in evs:
        if e['a'] == 'TimerFire' and prev == 'Suppress':
            return True
        if 'p' in e and packet_class(e['p']) != 'plain':
            return True
        if e['a'] == 'Publish' and e['n'] > 1:
            return True
        prev = e['post']['state']
    return False


# ------------------------------------------------------------------ two instances in one process

def expected_init(nodes, init, t0):
    """projection of a fresh, started instance (Svs!InitWith)"""
    local = {n: 0 for n in nodes}
    local[nodes[0]] = init
    return {'local': local, 'out': [], 'missed': 0, 'state': 'Steady', 'timer': t0, 'seq': init, 'ret': [], 'cbsaw': []}


class PairRun:
    """Two SvsInst objects of one Python process, each recorded as its own execution of Svs:
    `first` is created first and has state before `main` is created (C18 holds per instance: what one
    instance hears or publishes must not show in the other).
      live = True   first is a second sync group (other prefix, other own name, same peers) sharing the
                    loop, application and face with main; its timers never fire; events interleave
      live = False  first is an earlier instance of the same group that was stopped before main starts"""

    def __init__(self, nodes, sup, sync, rstep, live, first_cfg, main_cfg, peer=False, hi=None):
        self.nodes, self.sup, self.sync, self.rstep, self.live = nodes, sup, sync, rstep, live
        self.hi = hi                   # what the model value svskit.HI stands for (scaled classes); None: no high class
        self.octets = {'raised': [0, 0], 'outdated': [0, 0]}    # accepted vectors of [up to 252, 253+] octets that ...
        self.first_cfg, self.main_cfg = first_cfg, main_cfg
        self.base = int(round(sync * 0.9))
        self.first = self.main = self.peer = None
        self.with_peer = peer
        self.schedule = []
        self.main_after = None
        self.recs = {'first': {'cfg': first_cfg, 'ev': []}, 'main': {'cfg': main_cfg, 'ev': []},
                     'peer': {'cfg': {'init': 0, 't0': svskit.QUIET_TIMER}, 'ev': []}}
        self.init_diff = None
        self.raised = []               # (who, event number, sig, what)
        self.bg = []
        self.faults = []               # Scenario.init_faults of the instances of this run
        if first_cfg is not None:
            if live:
                self.first = Scenario(nodes, init_seq=first_cfg['init'], rstep=rstep, world=svskit.SIBLING, quiet=True,
                                      seq_hi=hi)
            else:
                self.first = Scenario(nodes, init_seq=first_cfg['init'], sup_ticks=sup, sync_ticks=sync, rstep=rstep,
                                      j0=first_cfg['t0'] - self.base, seq_hi=hi)
            self.faults += self.first.init_faults

    def start_main(self):
        self.main_after = len(self.schedule)
        if self.first is not None and not self.live:
            self.bg += self.first.errors()
            self.first.close()
            self.first = None
        cfg = self.main_cfg
        self.main = Scenario(self.nodes, init_seq=cfg['init'], sup_ticks=self.sup, sync_ticks=self.sync,
                             rstep=self.rstep, j0=cfg['t0'] - self.base, host=self.first if self.live else None,
                             seq_hi=self.hi)
        self.faults += self.main.init_faults
        obs = self.main.post()
        d = diff(obs, expected_init(self.nodes, cfg['init'], cfg['t0']), C18_FIELDS + SYNC_FIELDS)
        if d:
            self.init_diff = (d, obs)
        if self.with_peer:
            # a peer in the group of `main` (own application and face, same loop): loop-back of main's Interests
            self.peer = Scenario(self.nodes + ['a'], rstep=self.rstep, world=svskit.PEER, quiet=True,
                                 host=self.main, own_app=True, seq_hi=self.hi)
            self.faults += self.peer.init_faults
            self.peer.post()
        return obs

    def loop_back(self):
        """every sync Interest `main` emitted in its last step is handed, as it is on the wire, to the peer: for
        the peer that is RecvSV of exactly the vector main announced (main itself is node "a" there)"""
        for wire, vec, octets in self.main.last_wires:
            if any(n not in self.nodes or not isinstance(v, int) or v < 0 for n, v in vec.items()):
                continue            # foreign entries / numbers of no class: main's own execution is rejected already
            p = {'k': 'sv', 'es': [{'id': 'a' if n == self.nodes[0] else n, 'seq': v} for n, v in vec.items()]}
            post = self.peer.recv_wire(wire)
            self.recs['peer']['ev'].append({'a': 'RecvSV', 'p': p, 'j': 0, 'r': 0, 'post': post,
                                            **({'big': 1} if (octets or 0) >= 253 else {})})

    def step(self, who, ev):
        sc = self.first if who == 'first' else self.main
        ev = {k: v for k, v in ev.items() if k != 'post'}
        post = sc.apply(ev)
        if 'p' in ev and sc.last_x is not None:
            ev['x'] = sc.last_x               # which member of the class "cut" / "svl" the packet stood for
        if 'p' in ev and ev['p']['k'] == 'sv' and (sc.last_octets or 0) >= 253:
            ev['big'] = 1                 # the vector took 253 octets or more (a three-octet Length)
        if 'r' in ev and post['missed'] == 0:
            ev['r'] = 0                   # the callback did not run: the planned reaction is no part of the history
        self.schedule.append([who, dict(ev)])
        ev['post'] = post
        self.recs[who]['ev'].append(ev)
        rs = raised_sig(ev)
        if rs:
            self.raised.append((who, len(self.recs[who]['ev'])) + rs)
        if who == 'main' and ev['a'] == 'RecvSV' and sc.last_octets is not None:
            big = int(sc.last_octets >= 253)
            evs = self.recs[who]['ev']
            if post['missed']:
                self.octets['raised'][big] += 1
            if post['state'] == 'Suppress' and (evs[-2]['post']['state'] if len(evs) > 1 else 'Steady') == 'Steady':
                self.octets['outdated'][big] += 1
        if who == 'main' and self.peer is not None and post['out']:
            self.loop_back()
        return post

    def close(self):
        for sc in (self.peer, self.main, self.first):          # guests first, the host last
            if sc is not None:
                try:
                    self.bg += sc.errors()
                finally:
                    sc.close()
        self.main = self.first = self.peer = None

    def obj(self, which, at):
        return {'kind': 'pair', 'nodes': self.nodes, 'sup': self.sup, 'sync': self.sync, 'rstep': self.rstep,
                'live': self.live, 'peer': self.with_peer, 'first_cfg': self.first_cfg, 'main_cfg': self.main_cfg,
                'main_after': self.main_after, 'schedule': self.schedule, 'which': which, 'at': at,
                **({'hi': str(self.hi)} if self.hi is not None else {})}

    def report_init(self, ctx):
        report_faults(ctx, self.faults)
        self.faults = []
        if self.init_diff:
            d, obs = self.init_diff
            finding(ctx, 'C18/SvsInst/Init/%s' % '+'.join(d),
                    'a fresh instance, created after another instance of the process had state, does not start in '
                    'the initial state (fields %s): %s' % ('+'.join(d), json.dumps(obs)), self.obj('main', 0))
            return True
        return False


# ------------------------------------------------------------------ stage B

class Cover:
    """Adaptive (on-the-fly) transition cover of graph g by the real instance.

    A stimulus = an edge label without the choice parameter. For every graph state and every
    stimulus enabled there the stimulus is applied to the instance in (a set of graph states
    containing) that state; the observation selects the successor edge(s). The next stimulus is
    one not yet attempted at the current state, else the first step of a shortest path - through
    edges the implementation is known to take, or not yet tried - to a state that has one.

    The same vector again: the graph has no memory of packets, an implementation may have. Whenever a
    decodable vector was ignored because it over-claims, the walk continues with publications until the
    vector does not over-claim any more and then delivers the byte-identical vector again (once per
    vector and public state before; the expected outcome is the graph's, as for every step)."""

    def __init__(self, ctx, g, nodes, sup, sync, sample=False):
        self.ctx, self.g, self.nodes, self.sup, self.sync = ctx, g, nodes, sup, sync
        self.sample = sample          # budgeted run: pick the next stimulus at random (seeded) for breadth
        self.covered = set()          # (state id, edge index) the implementation took
        self.attempted = set()        # (state id, stimulus key)
        self.suspects = []            # recorded executions to be judged by SvsTrace
        self.steps = 0
        self.paths = 0
        self.new_pairs = 0            # (state, stimulus) pairs first attempted by the last path
        self.dev_hits = {}
        self.prev = None              # (cfg, events) of the previous path: the instance that lived before this one
        self.again_done = set()       # (packet, public state before) whose repetition after catching up was walked
        self.again_steps = 0
        self.pending = None           # packet to deliver again as soon as it does not over-claim any more
        self.init_bad = 0
        self.stims = {}               # state -> {stim key: (event, [edge index])}
        self._usable = {}
        self.todo = {}                # state -> set of stim keys not attempted
        for s in g.state:
            d = {}
            for k, (act, args, dst) in enumerate(g.edges.get(s, ())):
                ev, _ = edge_event(act, args)
                d.setdefault(stim_key(ev), (ev, []))[1].append(k)
            self.stims[s] = d
            self.todo[s] = set(d)
        self.n_stimuli = sum(len(d) for d in self.stims.values())

    def usable(self, s):
        """{dst: stimulus key} over the edges of s the implementation takes or has not been asked to take"""
        m = self._usable.get(s)
        if m is None:
            m = {}
            for key, (ev, ks) in self.stims[s].items():
                tried = (s, key) in self.attempted
                for k in ks:
                    if not tried or (s, k) in self.covered:
                        m.setdefault(self.g.edges[s][k][2], key)
            self._usable[s] = m
        return m

    def next_stimulus(self, curs):
        for s in sorted(curs):
            if self.todo[s]:
                # publications last: the own sequence number never goes back, and the states before
                # it still have stimuli to try
                return (self.ctx.rng.choice(sorted(self.todo[s])) if self.sample
                        else min(self.todo[s], key=lambda k: ('"Publish' in k, k)))
        seen = {s: None for s in curs}
        dq = deque(sorted(curs))
        while dq:
            s = dq.popleft()
            for dst, key in self.usable(s).items():
                if dst in seen:
                    continue
                seen[dst] = (s, key)
                if self.todo[dst]:
                    while seen[dst][0] not in curs:
                        dst = seen[dst][0]
                    return seen[dst][1]
                dq.append(dst)
        return None

    def overclaim(self, ev, curs):
        """largest own sequence number a decodable packet claims beyond what every current state has produced"""
        if ev['a'] != 'RecvSV' or ev['p']['k'] != 'sv':
            return 0
        own = [e['seq'] for e in ev['p']['es'] if e['id'] == self.nodes[0] and e['id'] not in (NOID, ROOTID)]
        top = max(own, default=0)
        return top if all(self.g.state[s]['selfSeq'] < top for s in curs) else 0

    def forced(self, curs):
        """the next stimulus of a repetition in progress (None: none in progress / not possible from here)"""
        if self.pending is None:
            return None
        p = self.pending
        s0 = min(curs)
        want = None
        if self.overclaim({'a': 'RecvSV', 'p': p}, curs):
            want = lambda e: e['a'] == 'Publish' and e['n'] == 1 and e['j'] == 0
        elif all(self.g.state[s]['selfSeq'] >= max(e['seq'] for e in p['es'] if e['id'] == self.nodes[0]) for s in curs):
            want = lambda e: e['a'] == 'RecvSV' and e['p'] == p and e['j'] == 0 and e['r'] == 0
            self.pending = None
        for key, (e, _) in sorted(self.stims[s0].items()):
            if want is not None and want(e):
                self.again_steps += 1
                return key
        self.pending = None
        return None

    def run_path(self, init, max_len):
        g, ctx = self.g, self.ctx
        self.pending = None
        st0 = g.state[init]
        sc = Scenario(self.nodes, init_seq=st0['selfSeq'], sup_ticks=self.sup, sync_ticks=self.sync,
                      j0=st0['timer'] - int(round(self.sync * 0.9)))
        evs = []
        try:
            report_faults(ctx, sc.init_faults)
            obs = sc.post()
            want = proj_state(st0)
            d0 = diff(obs, want, C18_FIELDS + SYNC_FIELDS)
            if d0:
                # anything the library does differently is a finding, not a harness problem: here a fresh
                # instance does not start in Init (typically state left behind by the previous instance)
                self.init_bad += 1
                self.new_pairs = 0
                pr = PairRun(self.nodes, self.sup, self.sync, 32768, False, None, None)
                pr.first_cfg = self.prev[0] if self.prev else None
                pr.main_cfg = {'init': st0['selfSeq'], 't0': st0['timer']}
                pr.schedule = [['first', {k: v for k, v in e.items() if k != 'post'}] for e in (self.prev[1] if self.prev else [])]
                pr.main_after = len(pr.schedule)
                pr.init_diff = (d0, obs)
                pr.report_init(ctx)
                return [], sc.errors()
            # the hidden part of the state (heard, agg) can make two successors look alike: keep
            # every graph state that explains the observations so far
            curs = {init}
            earlier = 0
            self.new_pairs = 0
            while len(evs) < max_len:
                key = self.forced(curs) or self.next_stimulus(curs)
                if key is None:
                    break
                cands = [(s, k) for s in sorted(curs) if key in self.stims[s] for k in self.stims[s][key][1]]
                ev = next(self.stims[s][key][0] for s in sorted(curs) if key in self.stims[s])
                for s in curs:
                    if key in self.stims[s]:
                        if (s, key) not in self.attempted:
                            self.new_pairs += 1
                        self.attempted.add((s, key))
                        self.todo[s].discard(key)
                        self._usable.pop(s, None)
                obs = sc.apply(ev)
                self.steps += 1
                rec = dict(ev)
                if 'p' in ev and sc.last_x is not None:
                    rec['x'] = sc.last_x          # which member of the class "cut" / "svl" the packet stood for
                rec['post'] = obs
                evs.append(rec)
                rs = raised_sig(rec)
                if rs:
                    finding(ctx, rs[0], rs[1], {'kind': 'trace', 'nodes': self.nodes, 'sup': self.sup, 'sync': self.sync,
                                                'rstep': 32768, 'at': len(evs),
                                                'rec': {'cfg': {'init': st0['selfSeq'], 't0': st0['timer']}, 'ev': list(evs)}})
                pn = ev['n'] if ev['a'] == 'PublishThenRecv' else 0
                exact = [(s, k) for (s, k) in cands
                         if not diff(obs, proj_state(g.state[g.edges[s][k][2]], g.state[s], pn), C18_FIELDS + SYNC_FIELDS)]
                if not exact:
                    # no successor of the graph explains the observation: let the open specification decide.
                    # Edges of this stimulus that were taken before are not reliable ways to travel any more
                    # (otherwise a tree that misbehaves only sometimes could be walked into for ever).
                    for (s, k) in cands:
                        self.covered.discard((s, k))
                        self._usable.pop(s, None)
                    self.suspects.append({'cfg': {'init': st0['selfSeq'], 't0': st0['timer']}, 'ev': list(evs)})
                    break
                self.covered.update(exact)
                for (s, k) in exact:
                    self._usable.pop(s, None)
                choices = {edge_event(*g.edges[s][k][:2])[1] for (s, k) in exact}
                if choices <= set(DEV_SIG):     # only a named deviation explains this step
                    for choice in sorted(choices):
                        self.dev_hits[choice] = self.dev_hits.get(choice, 0) + 1
                        sig, what = DEV_SIG[choice]
                        finding(ctx, sig, what, {'kind': 'trace', 'nodes': self.nodes, 'sup': self.sup,
                                                  'sync': self.sync, 'rstep': 32768, 'at': len(evs), 'earlier': earlier,
                                                  'rec': {'cfg': {'init': st0['selfSeq'], 't0': st0['timer']},
                                                          'ev': list(evs)}})
                    earlier += 1
                if self.pending is None and self.overclaim(ev, curs):
                    pre = g.state[min(curs)]
                    mark = (stim_key(ev['p']), json.dumps([pre['local'], pre['state'], pre['heard']], sort_keys=True, default=str))
                    if mark not in self.again_done and len(evs) + 4 <= max_len:
                        self.again_done.add(mark)
                        self.pending = ev['p']
                curs = {g.edges[s][k][2] for (s, k) in exact}
            bg = sc.errors()
        finally:
            sc.close()
        self.paths += 1
        self.prev = ({'init': st0['selfSeq'], 't0': st0['timer']}, evs)
        return evs, bg


def stage_b(ctx):
    confs = [(NODES3, 1, 'PacketsReplay', None)]
    if not ctx.quick:
        confs.append((NODES3, 2, 'PacketsReplay', 150000))
    for nodes, ms, pk, budget in confs:
        name = 'Svs_B_%d' % ms
        cfg = os.path.join(tlc.BUILD, name + '.cfg')
        tlc.write_cfg(cfg, constants=consts(nodes, ms, pk, 'impl', ALL_DEVS, 10, tick_ends=True, react=1, pre=1,
                                            prepackets=ctx.pick('PacketsPre', pk)),
                      invariants=INVS, view='View')
        g = graph.dump('SvsMC', cfg, workers=ctx.pick(4, 8), tag=name)
        ctx.add_tlc('Svs impl graph nodes=3 MaxSeq=%d packets=%s deviations as alternative edges (%d edges)' % (
            ms, pk, g.n_edges), g.tlc)
        cov = Cover(ctx, g, nodes, 2, 10, sample=budget is not None)
        inits = sorted(g.init)
        bgs = []
        idle = 0
        # termination: every path must try at least one new (state, stimulus) pair; the walk also ends after
        # MAX_SUSPECTS unexplained executions (a broken tree fails everywhere for a few reasons) and after
        # 4 steps per pair (a clean tree needs about 2)
        max_steps = 4 * cov.n_stimuli if budget is None else budget
        while (idle < 2 * len(inits) + 2 and cov.steps < max_steps and len(cov.suspects) < MAX_SUSPECTS
               and cov.init_bad < 3):
            init = inits[cov.paths % len(inits)]
            evs, bg = cov.run_path(init, 60)
            idle = idle + 1 if cov.new_pairs == 0 else 0
            if not evs:
                continue
            bgs += bg
            ctx.traces += 1
            ctx.evaluations += len(evs)
            if nontrivial(evs):
                ctx.nt('B:' + hashlib.sha1(json.dumps([{k: v for k, v in e.items() if k != 'post'}
                                                       for e in evs], sort_keys=True).encode()).hexdigest())
            ctx.sample({'kind': 'B-path', 'events': [{k: v for k, v in e.items() if k != 'post'} for e in evs][:12]},
                       limit=2)
        left = sum(len(t) for t in cov.todo.values())
        ctx.note('B[MaxSeq=%d]: %d states, %d edges, %d (state, stimulus) pairs; %d paths / %d steps on SvsInst; '
                 '%d pairs attempted, %d not reached; %d edges taken, %d alternative edges not taken by the '
                 'implementation; deviation edges taken: %s; %d unexplained; %d over-claiming vectors delivered again '
                 'after the node had caught up (%d extra steps)' % (
                     ms, len(g.state), g.n_edges, cov.n_stimuli, cov.paths, cov.steps, len(cov.attempted), left,
                     len(cov.covered), sum(len(cov.stims[s][key][1]) for (s, key) in cov.attempted) - len(cov.covered),
                     cov.dev_hits or 'none', len(cov.suspects), len(cov.again_done), cov.again_steps))
        ctx.extra.setdefault('B', []).append({'MaxSeq': ms, 'states': len(g.state), 'edges': g.n_edges,
                                              'stimuli': cov.n_stimuli, 'paths': cov.paths, 'steps': cov.steps,
                                              'attempted': len(cov.attempted), 'not_reached': left,
                                              'edges_taken': len(cov.covered)})
        if not cov.again_done and not cov.suspects and not cov.init_bad:
            raise tlc.MachineryError('vacuous: no ignored over-claiming vector was delivered again in stage B')
        if bgs:
            ctx.note('B: background exceptions in the loop (not judged by C18): %s' % sorted(set(bgs))[:3])
        if cov.init_bad:
            ctx.note('B: stopped: %d fresh instances did not start in the initial state' % cov.init_bad)
        if len(cov.suspects) >= MAX_SUSPECTS:
            ctx.note('B: stopped after %d unexplained executions' % len(cov.suspects))
        if cov.suspects:
            cov.suspects.sort(key=lambda r: len(r['ev']))
            judge(ctx, cov.suspects[:MAX_JUDGED], nodes, 2, 10, 32768, 'c18-b%d' % ms, maxseq=ms + 1)
            n_ok = LAST_JUDGE['accepted']
            if n_ok:
                ctx.note('B: %d executions left the impl-resolved graph but are behaviours of the open spec' % n_ok)


# ------------------------------------------------------------------ trace judge (B suspects, C, replay)

def _validate(ctx, recs, idx, nodes, dev, name, maxseq, env=None, count=True):
    tf = os.path.join(tlc.BUILD, '%s-traces-%s.ndjson' % (name, ctx.tier))
    with open(tf, 'w') as f:
        for i in idx:
            r = recs[i] if not isinstance(i, tuple) else {'cfg': recs[i[0]]['cfg'], 'ev': recs[i[0]]['ev'][:i[1]]}
            f.write(json.dumps(r) + '\n')
    cfg = os.path.join(tlc.BUILD, 'SvsTrace_%d_%s.cfg' % (len(nodes), 'dev' if dev else 'pure'))
    tlc.write_cfg(cfg, spec='TSpec',
                  constants=consts(nodes, maxseq, '{}', 'open', dev, 64, burst=3, hint=True, remember=True, pre=3),
                  invariants=['OwnEntry', 'SteadyForgets'],
                  # (properties a named deviation violates are left to the actions: TLC would stop at the first one)
                  properties=['Monotone', 'OverclaimIgnored', 'PublishEmitsFullVector', 'EmitsOnlyLocal', 'HeardIsMerge',
                              'OutdatedStartsSuppression', 'CallbackPublishEmits', 'Witnesses']
                  + ([] if dev else ['PublishThenRecvMerges', 'PublishThenRecvAnnounces']),
                  constraints=['Mark'], postcondition='Post', view='TView')
    r, rejected = tlc.validate_traces('SvsTrace', cfg, tf, env=env, tag=name)
    if count:
        ctx.add_tlc('SvsTrace %s deviations=%s (%d executions)' % (name, 'on' if dev else 'off', len(idx)), r)
    return r, {int(a): int(b) for a, b in rejected}


def judge(ctx, recs, nodes, sup, sync, rstep, name, maxseq=svskit.HI + svskit.HI_SPAN, report=True, objs=None):
    """Validate recorded executions with SvsTrace (Mode open).
    Pass 1, deviations off: an execution that is accepted is a behaviour of the specification.
    Pass 2, only for the rest, deviations on: the first event no specification step explains is
    attributed to the named deviation that explains it (finding with the deviation's signature), or,
    if none does, the projection field is named by re-validation with one field relaxed at a time.
    Returns findings [{'trace': index, 'at': event number (1-based), 'sig', 'what', 'dev': bool}]."""
    out = []
    LAST_JUDGE['unexplained'] = 0
    r1, rej1 = _validate(ctx, recs, list(range(len(recs))), nodes, (), name, maxseq)
    # kinds of transitions (Svs!Witnesses) that occur in the recorded executions
    LAST_JUDGE['witnessed'] = set(re.findall(r'<<"WITNESS", "(\w+)">>', r1.out))
    if r1.violated:
        out.append({'trace': 0, 'at': 0, 'dev': False, 'sig': 'C18/SvsInst/trace-property/%s' % r1.violated,
                    'what': 'property %s violated on a recorded execution' % r1.violated, 'obj': {'errtrace': r1.errtrace}})
    bad = sorted((t - 1, l) for t, l in rej1.items())           # (trace index, first unexplained event)
    LAST_JUDGE['accepted'] = len(recs) - len(bad)
    if bad:
        r2, rej2 = _validate(ctx, recs, [i for i, _ in bad], nodes, ALL_DEVS, name + '-dev', maxseq)
        used = {}
        for t, l, c in re.findall(r'<<"DEVUSED", (\d+), (\d+), "(\w+)">>', r2.out):
            used.setdefault(int(t) - 1, set()).add((int(l), c))
        unexplained = []
        first = {}
        for n, (i, l) in enumerate(bad):
            l2 = rej2.get(n + 1)
            if l2 is None or l2 > l:
                cands = sorted((ll, c) for ll, c in used.get(n, ()) if ll <= l)
                if not cands:
                    raise tlc.MachineryError('trace %d passes event %d only with deviations on, but no deviation was reported' % (i, l))
                ll, c = cands[-1]
                sig, what = DEV_SIG[c]
                out.append({'trace': i, 'at': ll, 'dev': True, 'sig': sig, 'what': what})
                first.setdefault(c, []).append((i, l2, n))
            if l2 is not None:
                unexplained.append((i, l2))
        # pass 3: does an execution whose first deviation is c need another deviation later on? (the one pass 2
        # used at the event where c alone gets stuck)
        for c, lst in sorted(first.items()):
            r3, rej3 = _validate(ctx, recs, [i for i, _, _ in lst], nodes, (DEV_OF[c],), name + '-dev1', maxseq)
            for k, (i, l2, n) in enumerate(lst):
                l3 = rej3.get(k + 1)
                if l3 is not None and (l2 is None or l3 < l2):
                    others = sorted({cc for ll, cc in used.get(n, ()) if ll == l3 and cc != c}) or \
                        sorted(d for d in DEV_OF if d != c)
                    for other in others:
                        sig, what = DEV_SIG[other]
                        out.append({'trace': i, 'at': l3, 'dev': True, 'sig': sig, 'what': what, 'earlier': 1})
        LAST_JUDGE['unexplained'] = len({i for i, _ in unexplained})
        if unexplained:
            # name the projection field: re-run the rejected prefixes with one field relaxed at a time
            # (the shortest MAX_DIAG of them; a broken tree rejects thousands, all for a few reasons)
            unexplained.sort(key=lambda x: (x[1], x[0]))
            dropped = len(unexplained) - MAX_DIAG
            unexplained = unexplained[:MAX_DIAG]
            if dropped > 0:
                ctx.note('%s: %d further rejected executions not diagnosed individually' % (name, dropped))
            fields = {}
            for fld in ('out', 'missed', 'local', 'state', 'timer', 'seq', 'ret', 'cbsaw'):
                _, rej3 = _validate(ctx, recs, unexplained, nodes, ALL_DEVS, name + '-diag', maxseq,
                                    env={'SVS_RELAX': fld}, count=False)
                for n, (i, l) in enumerate(unexplained):
                    if (n + 1) not in rej3:
                        fields.setdefault((i, l), []).append(fld)
            for i, l in unexplained:
                ev = recs[i]['ev'][l - 1] if 0 < l <= len(recs[i]['ev']) else None
                pre = recs[i]['ev'][l - 2]['post']['state'] if l >= 2 else 'Steady'
                fl = '+'.join(fields.get((i, l), [])) or 'several'
                if ev is None:
                    sig, what = 'C18/SvsInst/trace/end', 'trace bookkeeping'
                else:
                    cls = (packet_class(ev['p']) if 'p' in ev else pre) + scale_tag(ev)
                    obs = ''
                    if fl == 'out':
                        obs = '/emitted' if ev['post']['out'] else '/not-emitted'
                    elif fl == 'missed':
                        obs = '/called' if ev['post']['missed'] else '/not-called'
                    sig = 'C18/SvsInst/%s/%s/%s%s' % (ev['a'], cls, fl, obs)
                    what = ('event %d %s (%s, state before: %s) is not a step of Svs: projection field(s) %s; '
                            'observed %s' % (l, ev['a'], cls, pre, fl, json.dumps(ev['post'])))
                out.append({'trace': i, 'at': l, 'dev': False, 'sig': sig, 'what': what})
    if report:
        for f in out:
            obj = f.get('obj') or (objs[f['trace']](f['at']) if objs else None) or {'kind': 'trace', 'nodes': nodes, 'sup': sup, 'sync': sync, 'rstep': rstep,
                                   'at': f['at'], 'earlier': f.get('earlier', 0), 'rec': {'cfg': recs[f['trace']]['cfg'],
                                                          'ev': recs[f['trace']]['ev'][:max(f['at'], 1)]}}
            finding(ctx, f['sig'], f['what'], obj)
    return out


# ------------------------------------------------------------------ stage C

MAXSEQ_C = 20


def random_packet(rng, nodes, local, selfseq, base=0, dense=False):
    """dense (large groups): the share of the nodes a vector names is drawn once per vector - a few nodes, most of
    them, or the whole group - so that vectors on either side of 253 octets are heard"""
    top = base + MAXSEQ_C
    me = nodes[0]
    x = rng.random()
    if x < 0.04:
        return {'k': rng.choice(['empty', 'garbage', 'nowrapper', 'badname', 'unsigned', 'seqlen0', 'seqlen3', 'cut', 'cut']), 'es': []}
    if dense:
        share = rng.choice([4.0 / len(nodes), 0.3, 0.7, 1.0, 1.0])
        ids = [n for n in nodes if rng.random() < share] or [rng.choice(nodes)]
    else:
        ids = [n for n in nodes if rng.random() < rng.choice([0.3, 0.6, 1.0])] or [rng.choice(nodes)]
    style = rng.choice(['newer', 'older', 'mixed', 'mixed', 'equal', 'random', 'restarted'])
    es = []
    for n in ids:
        cur = local[n]
        if style == 'newer':
            s = cur + rng.randint(0, 2)
        elif style == 'older':
            s = max(0, cur - rng.randint(0, 2))
        elif style == 'equal':
            s = cur
        elif style == 'restarted':              # explicit SeqNo 0: a peer that has nothing yet
            s = 0 if rng.random() < 0.7 else cur
        elif style == 'mixed':
            s = max(0, cur + rng.randint(-2, 2))
        else:
            s = rng.randint(base, top)
        if n == me:
            s = min(s, selfseq)
        es.append({'id': n, 'seq': min(s, top)})
    if x < 0.12:                                   # over-claiming
        es = [e for e in es if e['id'] != me] + [{'id': me, 'seq': selfseq + rng.randint(1, 2)}]
    elif x < 0.18:                                 # entry without node id
        es.insert(rng.randrange(len(es) + 1), {'id': rng.choice([NOID, ROOTID]),
                                               'seq': rng.choice([NOSEQ, rng.randint(0, top)])})
    elif x < 0.24 and es:                          # entry without sequence number
        es[rng.randrange(len(es))]['seq'] = NOSEQ
    elif x > 0.94:                                 # a plain vector in a non-canonical encoding (non-minimal numbers, trailing octets)
        rng.shuffle(es)
        return {'k': 'svl', 'es': es}
    if rng.random() < 0.12:                        # a node named more than once (own node: 1 in 3), values around the local one
        for _ in range(rng.choice([1, 1, 2])):
            n = me if rng.random() < 0.34 else rng.choice([e['id'] for e in es if e['id'] not in (NOID, ROOTID)] or [me])
            cur = selfseq if n == me else local[n]
            es.append({'id': n, 'seq': min(max(0, cur + rng.randint(-2, 2)), top)})
    rng.shuffle(es)
    return {'k': 'sv', 'es': es}


def heard_packet(rng, nodes, cur, base, slots, dense=False):
    """the next vector heard. slots (None: no such peers) holds the vectors of up to three peers: a peer repeats its
    vector byte for byte - whatever became of it the first time, and whatever the node has published since -
    until it has a new one"""
    if slots and rng.random() < 0.3:
        return rng.choice(slots)
    p = random_packet(rng, nodes, cur['local'], cur['seq'], base, dense)
    if slots is not None and p['k'] == 'sv':
        if len(slots) < 3:
            slots.append(p)
        else:
            slots[rng.randrange(3)] = p
    return p


def random_event(rng, nodes, cur, njit, busy, timed=True, base=0, slots=None, dense=False):
    x = rng.random()
    j = rng.randrange(njit)
    top = base + MAXSEQ_C
    if timed and cur['seq'] + 5 <= top and rng.random() < 0.07:
        # the application publishes in the very loop iteration in which the handler of a sync Interest then runs
        # (before the timer task got to announce the publication): PublishThenRecv
        return {'a': 'PublishThenRecv', 'n': rng.choice([1, 1, 1, 2, 3]), 'p': heard_packet(rng, nodes, cur, base, slots, dense),
                'j': j, 'r': rng.choice([0, 0, 0, 1, 1, 2])}
    if x < busy or (not timed and x < 0.75):
        return {'a': 'RecvSV', 'p': heard_packet(rng, nodes, cur, base, slots, dense), 'j': j,
                'r': rng.choice([0, 0, 0, 1, 1, 2]) if cur['seq'] + 2 <= top else 0}
    # a node that hears a peer claim more of its data than it has produced (it restarted from an older
    # sequence number) tends to publish: catching up
    behind = any(e['id'] == nodes[0] and e['seq'] > cur['seq'] for p in slots or () for e in p['es'])
    if (x < busy + (0.2 if behind else 0.08) or not timed) and cur['seq'] < top:
        return {'a': 'Publish', 'n': min(rng.choice([1, 1, 1, 2, 3]), top - cur['seq']), 'j': j}
    if not timed:
        return {'a': 'RecvSV', 'p': random_packet(rng, nodes, cur['local'], cur['seq'], base, dense), 'j': j, 'r': 0}
    if cur['timer'] == 0:
        return {'a': 'TimerFire', 'j': j}
    t = cur['timer']
    return {'a': 'Tick', 'd': t if rng.random() < 0.5 else rng.randint(1, t)}


def record_random(rng, nodes, n_events, sup, sync, rstep, njit, hi=None, dense=False):
    """one process, three instances: a sibling of another sync group gets state first, then the instance
    under the random history is created, then a peer of its group; sibling events (vectors heard,
    publications) are interleaved, and every sync Interest the instance emits is fed to the peer.
    Sequence numbers start at a base on either side of the 1 / 2 / 4 byte SeqNo encodings; with hi (scaled
    classes: the model value svskit.HI stands for hi) at hi - the own sequence number and most of the peers' are
    then hi .. hi + MAXSEQ_C, the rest 0 or just above."""
    base = rng.choice([0, 0, 250, 65530]) if hi is None else svskit.HI
    first_cfg = {'init': base + rng.choice([0, 2, 5]), 't0': svskit.QUIET_TIMER}
    main_cfg = {'init': base + rng.choice([0, 0, 0, rng.randint(1, 5)]), 't0': int(round(sync * 0.9)) + rng.randrange(njit)}
    if hi is not None:
        first_cfg['hi'] = main_cfg['hi'] = str(hi)
    pr = PairRun(nodes, sup, sync, rstep, True, first_cfg, main_cfg, peer=True, hi=hi)
    if hi is not None:
        pr.recs['peer']['cfg']['hi'] = str(hi)
    try:
        sib = pr.first.post()
        # (a number of no class in a public vector: the execution is rejected at that step, nothing can follow it)
        lost = lambda c: any(v == svskit.BADSEQ for v in list(c['local'].values()) + [c['seq']])
        for _ in range(rng.randint(2, 4)):
            if not lost(sib):
                sib = pr.step('first', random_event(rng, nodes, sib, njit, 0.0, timed=False, base=base, dense=dense))
        cur = pr.start_main()
        busy = rng.choice([0.35, 0.5, 0.7])        # how chatty the neighbours are
        slots = []
        while len(pr.recs['main']['ev']) < n_events:
            if lost(cur) or lost(sib):
                break
            if rng.random() < 0.06:
                sib = pr.step('first', random_event(rng, nodes, sib, njit, 0.0, timed=False, base=base, dense=dense))
            else:
                cur = pr.step('main', random_event(rng, nodes, cur, njit, busy, base=base, slots=slots, dense=dense))
    finally:
        pr.close()
    return pr


def group(k):
    """the node ids of a group of k (spec/Svs.tla: Grp(k))"""
    return ['self'] + ['n%d' % i for i in range(1, k)]


def padded(rec, nodes):
    """the recorded execution as one of the larger group `nodes`, whose other members are never heard of: every
    recorded vector gets a zero entry for them"""
    def pad(v):
        return {**{n: 0 for n in nodes}, **v}

    def post(p):
        return {**p, 'local': pad(p['local']), 'out': [pad(v) for v in p['out']], 'cbsaw': [pad(v) for v in p['cbsaw']]}
    return {'cfg': rec['cfg'], 'ev': [{**e, 'post': post(e['post'])} for e in rec['ev']]}


# what the model value svskit.HI stands for in the scale histories: sequence numbers on either side of 2^31 (a
# signed 32-bit integer), of 2^32 (the 4 / 8 octet encodings), of 2^53 (a double), of 2^63 (a signed 64-bit
# integer), 8-octet numbers throughout, and the largest NonNegativeIntegers there are
MAG_LABELS = ('2^32', '2^63', '2^31', '2^53', '2^64 - 1', '2^40')
MAGNITUDES = ((1 << 32) - 8, (1 << 63) - 6, (1 << 31) - 9, (1 << 53) - 7, (1 << 64) - 1 - MAXSEQ_C - 3, (1 << 40) + 12345)


def record_sweep(nodes, sup, sync, rstep, both):
    """Every member of the byte-level packet classes, delivered to a real instance: "cut" (World.cuts: the encoding
    of a vector cut at every octet, with the numbers of each kind also in their 3 / 5 / 9-octet forms) and "svl"
    (World.lenient). Histories of 250 deliveries; the instance of every other history is in a suppression period
    (both: every member in both situations). Expectation as for every recorded execution: SvsTrace."""
    world = svskit.WORLD
    items = [('cut', x) for x in range(world.members('cut'))] + [('svl', x) for x in range(world.members('svl'))]
    plan = [(it, sup_ctx) for it in items for sup_ctx in ((False, True) if both else (None,))]
    runs = []
    for c0 in range(0, len(plan), 250):
        chunk = plan[c0:c0 + 250]
        in_sup = chunk[0][1] if both else (c0 // 250) % 2 == 1
        pr = PairRun(nodes, sup, sync, rstep, False, None, {'init': 0, 't0': int(round(sync * 0.9))})
        try:
            pr.start_main()
            seq = 0
            pr.step('main', {'a': 'Publish', 'n': 1, 'j': 0})
            for (k, x), want_sup in chunk:
                want_sup = in_sup if want_sup is None else want_sup
                st = pr.recs['main']['ev'][-1]['post']['state'] if pr.recs['main']['ev'] else 'Steady'
                if want_sup and st == 'Steady':
                    # an outdated vector (the own entry is behind) starts a suppression period
                    pr.step('main', {'a': 'RecvSV', 'p': {'k': 'sv', 'es': [{'id': nodes[0], 'seq': 0}]}, 'j': 0, 'r': 0})
                elif not want_sup and st == 'Suppress':
                    pr.step('main', {'a': 'Publish', 'n': 1, 'j': 0})
                if k == 'svl':
                    seq += 1
                    p = {'k': 'svl', 'es': [{'id': nodes[3], 'seq': seq}]}
                else:
                    p = {'k': k, 'es': []}
                pr.step('main', {'a': 'RecvSV', 'p': p, 'j': 0, 'r': 0, 'x': x})
        finally:
            pr.close()
        runs.append(pr)
    return runs, len(items)


def stage_c_scale(ctx, sup, sync, rstep, njit, total, witnessed, bgs):
    """The same random histories at scale: groups of 20 - 100 nodes (vectors of a few entries and of the whole group:
    up to 252 octets and beyond) x sequence numbers at every magnitude a NonNegativeInteger has (MAGNITUDES,
    scaled classes; one history in seven keeps the ordinary numbers). Every history of the quick tier has another
    magnitude. Judged by SvsTrace like the others, one run per group size: the executions of the instance, of its
    sibling and of the loop-back peer (one node more) together, in the peer's group."""
    sizes = ctx.pick((24,), (20, 40, 100))
    count = ctx.pick(8, 126)
    off = ctx.rng.randrange(len(MAGNITUDES) + 1)
    by_size = {k: ([], []) for k in sizes}
    octets = {'raised': [0, 0], 'outdated': [0, 0]}
    n_hi = 0
    for i in range(count):
        k = sizes[i % len(sizes)]
        hi = (MAGNITUDES + (None,))[(i // len(sizes) + off) % (len(MAGNITUDES) + 1)]
        n_hi += hi is not None
        pr = record_random(ctx.rng, group(k), ctx.rng.randint(*ctx.pick((60, 80), (90, 110))), sup, sync, rstep, njit,
                           hi=hi, dense=True)
        pr.report_init(ctx)
        for who, at, sig, what in pr.raised:
            finding(ctx, sig, what, pr.obj(who, at))
        recs, objs = by_size[k]
        for which in ('main', 'first', 'peer'):
            recs.append(padded(pr.recs[which], group(k) + ['a']))
            objs.append(lambda at, pr=pr, which=which: pr.obj(which, at))
        bgs += pr.bg
        for key in octets:
            octets[key] = [a + b for a, b in zip(octets[key], pr.octets[key])]
        if nontrivial(pr.recs['main']['ev']):
            ctx.nt('C:' + hashlib.sha1(json.dumps(pr.recs['main'], sort_keys=True).encode()).hexdigest())
    seen = set()
    rej0 = total['rej'] + total['dev']
    for k in sizes:
        recs, objs = by_size[k]
        step = max(30, 6000 // k)           # (a recorded vector has k entries: the trace file grows with k)
        for b in range(0, len(recs), step):
            fnd = judge(ctx, recs[b:b + step], group(k) + ['a'], sup, sync, rstep, 'c18-c-scale%d' % k, objs=objs[b:b + step])
            seen |= LAST_JUDGE['witnessed']
            total['dev'] += sum(1 for f in fnd if f['dev'])
            total['rej'] += LAST_JUDGE['unexplained']
        ctx.traces += len(recs)
        ctx.evaluations += sum(len(r['ev']) for r in recs)
    witnessed |= seen
    ctx.extra['C_scale'] = {'sizes': list(sizes), 'histories': count, 'with_high_sequence_numbers': n_hi,
                            'accepted_vectors_that_raised_an_entry': {'up_to_252_octets': octets['raised'][0],
                                                                      '253_octets_and_more': octets['raised'][1]},
                            'vectors_that_started_a_suppression_period': {'up_to_252_octets': octets['outdated'][0],
                                                                          '253_octets_and_more': octets['outdated'][1]}}
    ctx.note('C: scale: %d histories of groups of %s nodes, %d of them with sequence numbers around %s; vectors that '
             'raised an entry: %d of up to 252 octets, %d of 253 and more; that started a suppression period: %d / %d' % (
                 count, '/'.join(map(str, sizes)), n_hi,
                 ' / '.join(MAG_LABELS),
                 octets['raised'][0], octets['raised'][1], octets['outdated'][0], octets['outdated'][1]))
    if total['rej'] + total['dev'] == rej0:
        # (no vacuity verdict on a tree that is rejected)
        need = [x for x in SCALE_WITNESSES if x not in seen]
        thin = [k for k, v in octets.items() if 0 in v]
        if need or thin:
            raise tlc.MachineryError('vacuous: the scale histories never had a step of kind %s / no vector on one side '
                                     'of 253 octets that %s' % (need, thin))


def stage_c(ctx):
    n = ctx.pick(60, 1200)
    sup, sync, rstep, njit = 8, 40, 8192, 8
    recs, bgs, objs, n_init = [], [], [], 0
    precs, pobjs = [], []
    sweep, n_members = record_sweep(NODES5, sup, sync, rstep, not ctx.quick)
    for pr in sweep:
        pr.report_init(ctx)
        for who, at, sig, what in pr.raised:
            finding(ctx, sig, what, pr.obj(who, at))
        recs.append(pr.recs['main'])
        objs.append(lambda at, pr=pr: pr.obj('main', at))
        bgs += pr.bg
    ctx.note('C: %d histories deliver each of the %d members of the byte-level classes "cut" / "svl" %s' % (
        len(sweep), n_members, 'once' if ctx.quick else 'in Steady and in Suppress'))
    for i in range(n):
        pr = record_random(ctx.rng, NODES5, ctx.rng.randint(90, 110), sup, sync, rstep, njit)
        n_init += bool(pr.report_init(ctx))
        for who, at, sig, what in pr.raised:
            finding(ctx, sig, what, pr.obj(who, at))
        for which in ('main', 'first'):
            recs.append(pr.recs[which])
            objs.append(lambda at, pr=pr, which=which: pr.obj(which, at))
        precs.append(pr.recs['peer'])
        pobjs.append(lambda at, pr=pr: pr.obj('peer', at))
        bgs += pr.bg
        rec = pr.recs['main']
        if nontrivial(rec['ev']):
            ctx.nt('C:' + hashlib.sha1(json.dumps(rec, sort_keys=True).encode()).hexdigest())
    ctx.sample({'kind': 'C-trace', 'cfg': recs[0]['cfg'],
                'events': [{k: v for k, v in e.items() if k != 'post'} for e in recs[0]['ev'][:10]]})
    batch = 500
    total = {'dev': 0, 'rej': 0}
    witnessed = set()
    for b in range(0, len(recs), batch):
        fnd = judge(ctx, recs[b:b + batch], NODES5, sup, sync, rstep, 'c18-c', objs=objs[b:b + batch])
        witnessed |= LAST_JUDGE['witnessed']
        total['dev'] += sum(1 for f in fnd if f['dev'])
        total['rej'] += LAST_JUDGE['unexplained']
        if total['rej'] >= MAX_DIAG and b + batch < len(recs):
            ctx.note('C: %d executions rejected so far; the remaining %d are not judged' % (total['rej'], len(recs) - b - batch))
            break
    if total['rej'] < MAX_DIAG:
        for b in range(0, len(precs), 4 * batch):
            fnd = judge(ctx, precs[b:b + 4 * batch], NODES5 + ['a'], sup, sync, rstep, 'c18-c-peer', objs=pobjs[b:b + 4 * batch])
            total['dev'] += sum(1 for f in fnd if f['dev'])
            total['rej'] += LAST_JUDGE['unexplained']
    ctx.extra['C_witnessed'] = sorted(witnessed)
    need = [x for x in DUP_WITNESSES + AGAIN_WITNESSES if x not in witnessed]
    if need and not total['rej'] and not total['dev'] and n >= 60:
        # (an execution is judged up to its first rejected event only: no vacuity verdict on a tree that is rejected)
        raise tlc.MachineryError('vacuous: the random histories never had a step of kind %s' % need)
    if total['rej'] < MAX_DIAG:
        stage_c_scale(ctx, sup, sync, rstep, njit, total, witnessed, bgs)
    ctx.note('C: kinds of steps (Svs!Witnesses) not seen in the recorded executions: %s' % (
        sorted(set(WITNESSES) - witnessed) or 'none'))
    ctx.extra['C_loopback'] = {'peers': len(precs), 'interests_fed_back': sum(len(r['ev']) for r in precs)}
    ctx.traces += len(recs) + len(precs)
    ctx.evaluations += sum(len(r['ev']) for r in recs) + sum(len(r['ev']) for r in precs)
    if n_init:
        ctx.note('C: %d fresh instances did not start in the initial state' % n_init)
    ctx.note('C: %d peers were fed %d sync Interests emitted by the instance under test' % (
        len(precs), sum(len(r['ev']) for r in precs)))
    ctx.note('C: %d executions (two instances per process), %d events; steps explained only by a named deviation: %d; rejected executions: %d' % (
        len(recs), sum(len(r['ev']) for r in recs), total['dev'], total['rej']))
    if bgs:
        ctx.note('C: background exceptions in the loop (not judged by C18): %s' % sorted(set(bgs))[:3])


# ------------------------------------------------------------------ entry points

def run(ctx):
    ctx.rule = ('non-trivial = distinct stimulus history (B path / C trace) in which a suppression period ends by '
                'its timer, or an over-claiming / damaged / undecodable packet is received, or several publications '
                'happen in one instant')
    ctx.assumptions = ['appv2 delivers a validated sync Interest to the attached handler (C04/C05)',
                       'virtual-time loop is faithful to asyncio timer semantics; a packet and an expiry at the same '
                       'instant are ordered packet-first or expiry-first; inside one loop iteration: publications and then '
                       'the handler of a sync Interest, before the timer task runs (PublishThenRecv: the application '
                       'publishes from a callback queued in front of the resumption of its validator)',
                       'a received vector that names a node more than once: it over-claims if any entry for the own '
                       'node does; otherwise C18 does not fix which of the contradicting entries counts (any one entry '
                       'per node, the same for local_sv and the suppression aggregate), nor whether it is taken at all',
                       'no stop()/start() of an instance and no send failure (face down) during a history: outside the '
                       'quantifier of C18 (audit S9, S10: proposed_fixes/C18-stop-cancels-timer-task.diff, '
                       'C18-send-failure-keeps-timer-running.diff)']
    try:
        if 'A' in ctx.stages:
            stage_a(ctx)
        if 'B' in ctx.stages:
            stage_b(ctx)
        if 'C' in ctx.stages:
            stage_c(ctx)
    finally:
        flush(ctx)


def replay(ctx, path):
    with open(path) as f:
        obj = json.load(f)
    if obj.get('kind') == 'pair':
        return replay_pair(ctx, obj)
    if obj.get('kind') == 'init':
        world = {'main': svskit.WORLD, 'sibling': svskit.SIBLING, 'peer': svskit.PEER}[obj['world']]
        sc = Scenario(obj['nodes'], init_seq=obj['init'], world=world, reps=tuple(obj['reps']))
        faults = sc.init_faults
        sc.close()
        for tail, what, _ in faults:
            print('REPRODUCED: C18/SvsInst/Init/%s\n  %s' % (tail, what))
        if not faults:
            print('not reproduced: the instance was created and started, and kept its names')
        return 1 if faults else 0
    if obj.get('kind') != 'trace':
        print(json.dumps(obj, indent=1)[:6000])
        return 0
    rec = obj['rec']
    sc = Scenario(obj['nodes'], init_seq=rec['cfg']['init'], sup_ticks=obj['sup'], sync_ticks=obj['sync'],
                  rstep=obj['rstep'], j0=(rec['cfg']['t0'] - int(round(obj['sync'] * 0.9))))
    evs = []
    try:
        for e in rec['ev']:
            ev = {k: v for k, v in e.items() if k != 'post'}
            post = sc.apply(ev)
            same = post == e['post']
            print('%-9s %s -> %s%s' % (ev['a'], json.dumps({k: v for k, v in ev.items() if k != 'a'}),
                                       json.dumps(post), '' if same else '   [recorded: %s]' % json.dumps(e['post'])))
            ev['post'] = post
            evs.append(ev)
    finally:
        sc.close()
    fnd = judge(ctx, [{'cfg': rec['cfg'], 'ev': evs}], obj['nodes'], obj['sup'], obj['sync'], obj['rstep'],
                'c18-replay', report=False)
    for n, e in enumerate(evs):
        rs = raised_sig(e)
        if rs:
            fnd.append({'at': n + 1, 'sig': rs[0], 'what': rs[1]})
    for f in fnd:
        print('REPRODUCED at event %d: %s\n  %s' % (f['at'], f['sig'], f['what']))
    if not fnd:
        print('not reproduced: the re-executed history is a behaviour of Svs')
    return 1 if fnd else 0


def replay_pair(ctx, obj):
    pr = PairRun(obj['nodes'], obj['sup'], obj['sync'], obj['rstep'], obj['live'], obj['first_cfg'], obj['main_cfg'],
                 peer=obj.get('peer', False), hi=int(obj['hi']) if obj.get('hi') else None)
    try:
        for k, (who, ev) in enumerate(obj['schedule'] + [['end', None]]):
            if k == obj['main_after']:
                p0 = pr.start_main()
                print('main      created -> %s' % json.dumps(p0))
            if who == 'end':
                break
            post = pr.step(who, ev)
            print('%-5s %-9s %s -> %s' % (who, ev['a'], json.dumps({x: y for x, y in ev.items() if x != 'a'}),
                                          json.dumps(post)))
    finally:
        pr.close()
    found = len(pr.raised)
    for who, at, sig, what in pr.raised:
        print('REPRODUCED in the execution of `%s` at event %d: %s\n  %s' % (who, at, sig, what))
    if pr.init_diff:
        print('REPRODUCED: C18/SvsInst/Init/%s\n  the fresh instance starts as %s' % ('+'.join(pr.init_diff[0]),
                                                                                   json.dumps(pr.init_diff[1])))
        found += 1
    names = [w for w in ('main', 'first') if pr.recs[w]['cfg'] is not None]
    fnd = judge(ctx, [pr.recs[w] for w in names], obj['nodes'], obj['sup'], obj['sync'], obj['rstep'],
                'c18-replay', report=False)
    for f in fnd:
        print('REPRODUCED in the execution of `%s` at event %d: %s\n  %s' % (names[f['trace']], f['at'], f['sig'], f['what']))
    found += len(fnd)
    if pr.recs['peer']['ev']:
        for e in pr.recs['peer']['ev']:
            print('peer  RecvSV    %s -> %s' % (json.dumps(e['p']), json.dumps(e['post'])))
        fnd = judge(ctx, [pr.recs['peer']], obj['nodes'] + ['a'], obj['sup'], obj['sync'], obj['rstep'],
                    'c18-replay-peer', report=False)
        for f in fnd:
            print('REPRODUCED in the execution of `peer` at event %d: %s\n  %s' % (f['at'], f['sig'], f['what']))
        found += len(fnd)
    if not found:
        print('not reproduced: both re-executed histories are behaviours of Svs')
    return 1 if found else 0
