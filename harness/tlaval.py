"""Parser for TLA+ values as printed by TLC (states, action parameters, PrintT output).

Python representation:
  integer -> int, string -> str, TRUE/FALSE -> bool,
  tuple/sequence <<..>> -> tuple, set {..} -> frozenset,
  record [a |-> v] -> dict, function (k :> v @@ ...) -> dict (keys hashable),
  model value / identifier -> ModelValue(str)
"""


class ModelValue(str):
    def __repr__(self):
        return 'MV(%s)' % str.__repr__(self)


class FrozenDict(dict):
    def __hash__(self):
        return hash(frozenset(self.items()))


class _P:
    def __init__(self, s):
        self.s = s
        self.i = 0

    def ws(self):
        s = self.s
        while self.i < len(s) and s[self.i] in ' \t\r\n':
            self.i += 1

    def peek(self, k=1):
        return self.s[self.i:self.i + k]

    def expect(self, tok):
        self.ws()
        if not self.s.startswith(tok, self.i):
            raise ValueError('expected %r at %d: %r' % (tok, self.i, self.s[self.i:self.i + 40]))
        self.i += len(tok)

    def value(self):
        self.ws()
        s = self.s
        c = s[self.i]
        if c == '"':
            return self.string()
        if s.startswith('<<', self.i):
            self.i += 2
            items = self.items('>>')
            return tuple(items)
        if c == '{':
            self.i += 1
            items = self.items('}')
            return frozenset(items)
        if c == '[':
            self.i += 1
            return self.record()
        if c == '(':
            self.i += 1
            return self.func()
        if c == '-' or c.isdigit():
            j = self.i + 1
            while j < len(s) and s[j].isdigit():
                j += 1
            v = int(s[self.i:j])
            self.i = j
            # interval a..b
            if s.startswith('..', self.i):
                self.i += 2
                hi = self.value()
                return tuple(range(v, hi + 1)) if False else frozenset(range(v, hi + 1))
            return v
        if c.isalpha() or c == '_':
            j = self.i
            while j < len(s) and (s[j].isalnum() or s[j] == '_'):
                j += 1
            w = s[self.i:j]
            self.i = j
            if w == 'TRUE':
                return True
            if w == 'FALSE':
                return False
            return ModelValue(w)
        raise ValueError('unexpected %r at %d: %r' % (c, self.i, s[self.i:self.i + 40]))

    def string(self):
        s = self.s
        assert s[self.i] == '"'
        j = self.i + 1
        out = []
        while s[j] != '"':
            if s[j] == '\\':
                j += 1
                out.append({'n': '\n', 't': '\t', 'r': '\r', 'f': '\f'}.get(s[j], s[j]))
            else:
                out.append(s[j])
            j += 1
        self.i = j + 1
        return ''.join(out)

    def items(self, close):
        out = []
        self.ws()
        if self.s.startswith(close, self.i):
            self.i += len(close)
            return out
        while True:
            out.append(_freeze(self.value()))
            self.ws()
            if self.s.startswith(close, self.i):
                self.i += len(close)
                return out
            self.expect(',')

    def record(self):
        d = FrozenDict()
        self.ws()
        if self.peek() == ']':
            self.i += 1
            return d
        while True:
            self.ws()
            j = self.i
            while self.s[j].isalnum() or self.s[j] == '_':
                j += 1
            k = self.s[self.i:j]
            self.i = j
            self.expect('|->')
            d[k] = _freeze(self.value())
            self.ws()
            if self.peek() == ']':
                self.i += 1
                return d
            self.expect(',')

    def func(self):
        d = FrozenDict()
        while True:
            k = _freeze(self.value())
            self.expect(':>')
            v = _freeze(self.value())
            d[k] = v
            self.ws()
            if self.peek() == ')':
                self.i += 1
                return d
            self.expect('@@')


def _freeze(v):
    return v


def parse(text):
    p = _P(text)
    v = p.value()
    p.ws()
    if p.i != len(p.s):
        raise ValueError('trailing text at %d: %r' % (p.i, p.s[p.i:p.i + 40]))
    return v


def parse_args(text):
    """Parse 'a, b, c' (action parameter list) into a list of values."""
    if text is None or text.strip() == '':
        return []
    p = _P(text)
    out = []
    while True:
        out.append(p.value())
        p.ws()
        if p.i >= len(p.s):
            return out
        p.expect(',')


def parse_state(text):
    """Parse '/\\ x = v\\n/\\ y = w' (or a single 'x = v') into dict var -> value."""
    p = _P(text)
    d = {}
    while True:
        p.ws()
        if p.i >= len(p.s):
            return d
        if p.s.startswith('/\\', p.i):
            p.i += 2
        p.ws()
        j = p.i
        while p.s[j].isalnum() or p.s[j] == '_':
            j += 1
        name = p.s[p.i:j]
        p.i = j
        p.expect('=')
        d[name] = p.value()


def seq(v):
    """Normalise a TLA+ sequence value that may have been printed as a function 1..n or tuple."""
    if isinstance(v, tuple):
        return list(v)
    if isinstance(v, dict):
        return [v[k] for k in sorted(v)]
    raise TypeError(v)


def to_json(v):
    """Convert parsed value into JSON-friendly structure (sets -> sorted lists, tuples -> lists)."""
    if isinstance(v, (bool, int, str)):
        return v if not isinstance(v, ModelValue) else str(v)
    if isinstance(v, tuple):
        return [to_json(x) for x in v]
    if isinstance(v, frozenset):
        return sorted((to_json(x) for x in v), key=lambda x: repr(x))
    if isinstance(v, dict):
        if all(isinstance(k, str) for k in v):
            return {str(k): to_json(x) for k, x in v.items()}
        return [[to_json(k), to_json(x)] for k, x in sorted(v.items(), key=lambda kv: repr(kv[0]))]
    raise TypeError(type(v))
