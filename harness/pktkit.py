"""Shared executor pieces for C01 / C02 / C16 (spec: NdnPackets*.tla, CertTime*.tla).

  gen(ctx, scale)            TLC enumerates NdnPacketsCfg!CfgSpace -> [{cfg, exp}, ...]   (stage B input)
  Pool(rng)                  per-run key pool (EC P-256/P-384/P-521, RSA-2048, Ed25519, HMAC)
  build(cfg, rng, pool)      abstract cfg -> real make_interest / make_data call with real signers
  layout(wire)               strict-reader projection: [(d, t, off, hdr, len), ...]
  judge(ctx, module, recs)   batch trace validation by TLC (NdnPacketsTrace / NdnPacketsCertTrace)

cfg is the JSON shape documented in spec/NdnPackets.tla.  Payload bytes never go to TLA+.
"""
import ctypes, hashlib, json, os, random, zlib

from harness import tlc, strict_tlv as st
from harness.tlc import MachineryError

import ndn.encoding as enc
from ndn.encoding import Signer, InterestParam, MetaInfo, make_interest, make_data, parse_interest, parse_data
from ndn.security import (Sha256WithEcdsaSigner, Sha256WithRsaSigner, HmacSha256Signer, Ed25519Signer,
                          DigestSha256Signer, NullSigner)
from ndn.encoding import SignatureType
from ndn.security.validator.known_key_validator import (verify_ecdsa, verify_rsa, verify_hmac, verify_ed25519,
                                                        EccChecker, RsaChecker, HmacChecker, Ed25519Checker)
from ndn.security.validator.digest_validator import sha256_digest_checker, params_sha256_checker
from Cryptodome.PublicKey import ECC, RSA
from Cryptodome.Hash import SHA256, HMAC
from Cryptodome.Signature import DSS, pkcs1_15, eddsa

T_PD = 2

# ----------------------------------------------------------------------------- TLC generator


def gen(ctx, scale, tag='c01'):
    """Run NdnPacketsGen; returns the list of {cfg, exp} lines (exp as documented in NdnPackets!Expect)."""
    out = os.path.join(tlc.BUILD, 'ndnpackets-gen-%s-%s.ndjson' % (tag, ctx.tier))
    cfgp = os.path.join(tlc.BUILD, 'NdnPacketsGen_%s_%s.cfg' % (tag, ctx.tier))
    tlc.write_cfg(cfgp, spec=None, constants={'Scale': scale})
    if os.path.exists(out):
        os.unlink(out)
    r = tlc.run('NdnPacketsGen', cfgp, workers=1, heavy=True, env={'OUT': out}, tag='gen-' + tag)
    if not os.path.exists(out):
        raise MachineryError('NdnPacketsGen wrote nothing')
    lines = []
    with open(out) as f:
        for l in f:
            if l.strip():
                lines.append(json.loads(l))
    if not lines:
        raise MachineryError('NdnPacketsGen produced an empty configuration space')
    return lines, r


def exp_layout(exp):
    return [(e['d'], e['t'], e['off'], e['hdr'], e['len']) for e in exp['lay']]


# ----------------------------------------------------------------------------- keys and signers

class Pool:
    """Key material made once per run (key generation is slow)."""

    # HMAC keys of every length class around the block size of SHA-256 (RFC 2104: a key longer than 64 octets is hashed
    # first, a key of exactly 64 octets is not), chosen by the key locator name so that signer and verifier agree
    HMAC_LENS = (32, 16, 1, 63, 64, 65, 100, 128, 160)

    def hmac_for(self, kl):
        try:
            b = bytes(enc.Name.to_bytes(kl)) if kl is not None else b''
        except Exception:  # noqa
            b = repr(kl).encode()
        h = hashlib.sha256(b).digest()
        n = self.HMAC_LENS[h[0] % len(self.HMAC_LENS)]
        return self.hmac if n == 32 else self._hmac_long[:n]

    def __init__(self, rng):
        rf = rng.randbytes
        self.ec = {}
        for curve, r in (('P-256', 72), ('P-384', 104), ('P-521', 140)):
            k = ECC.generate(curve=curve, randfunc=rf)
            self.ec[r] = (k.export_key(format='DER'), k.public_key())
        k = RSA.generate(2048, randfunc=rf)
        self.rsa = (k.export_key(format='DER'), k.public_key())
        k2 = RSA.generate(2048, randfunc=rf)
        self.rsa2 = (k2.export_key(format='DER'), k2.public_key())
        k = ECC.generate(curve='Ed25519', randfunc=rf)
        self.ed = (k.export_key(format='DER'), k.public_key())
        self.hmac = rf(32)
        self._hmac_long = rf(160)
        # further keys of each class (histories over several verifier objects: key roll-over etc.)
        self.more = {'rsa': [self.rsa, self.rsa2], 'hmac': [self.hmac, rf(32), rf(32)], 'ecdsa': [self.ec[72]], 'ed25519': [self.ed]}
        for _ in range(2):
            k = ECC.generate(curve='P-256', randfunc=rf)
            self.more['ecdsa'].append((k.export_key(format='DER'), k.public_key()))
            k = ECC.generate(curve='Ed25519', randfunc=rf)
            self.more['ed25519'].append((k.export_key(format='DER'), k.public_key()))

    def pub_der(self, which):
        if which in ('ec256', 'ec384', 'ec521'):
            return self.ec[{'ec256': 72, 'ec384': 104, 'ec521': 140}[which]][1].export_key(format='DER')
        if which == 'rsa':
            return self.rsa[1].export_key(format='DER')
        if which == 'rsa2':
            return self.rsa2[1].export_key(format='DER')
        if which == 'ed25519':
            return self.ed[1].export_key(format='DER')
        raise KeyError(which)


class SynSigner(Signer):
    """Synthetic signer: reserves r bytes, writes a (<= r) bytes."""
    SIG_TYPE = 200

    def __init__(self, r, a, st_, kl):
        self.r, self.a, self.st, self.kl = r, a, st_, kl

    def write_signature_info(self, si):
        if self.st:
            si.signature_type = self.SIG_TYPE
        if self.kl is not None:
            si.key_locator = enc.KeyLocator()
            si.key_locator.name = self.kl

    def get_signature_value_size(self):
        return self.r

    def write_signature_value(self, wire, contents):
        h = hashlib.sha256(b''.join(bytes(c) for c in contents)).digest()
        wire[:self.a] = (h * (self.a // 32 + 1))[:self.a]
        return self.a


class Recorder(Signer):
    """Wraps a signer: records what it was handed and what it wrote; optionally re-signs until the
    signature has the wanted length (ECDSA DER signatures vary in length)."""

    _OWN = frozenset(['inner', 'target', 'calls', 'covered', 'buflen', 'actual', 'reserve', 'sig', 'sig_info'])

    def __setattr__(self, k, v):
        # transparent for everything else: code under test that configures the signer it was given
        # (e.g. signer.key_locator_name = ...) reaches the real object
        if k in Recorder._OWN:
            object.__setattr__(self, k, v)
        else:
            setattr(self.inner, k, v)

    def __getattr__(self, k):
        return getattr(object.__getattribute__(self, 'inner'), k)

    def __init__(self, inner, target=None):
        self.inner, self.target = inner, target
        self.calls = 0
        self.covered = None
        self.buflen = self.actual = self.reserve = None
        self.sig = None
        self.sig_info = None

    def write_signature_info(self, si):
        self.inner.write_signature_info(si)
        self.sig_info = si

    def get_signature_value_size(self):
        self.reserve = self.inner.get_signature_value_size()
        return self.reserve

    def write_signature_value(self, wire, contents):
        self.calls += 1
        self.covered = b''.join(bytes(c) for c in contents)
        self.buflen = len(wire)
        n = None
        for _ in range(2000):
            n = self.inner.write_signature_value(wire, contents)
            if self.target is None or n == self.target:
                break
        else:
            raise MachineryError('could not obtain a signature of length %s' % self.target)
        self.actual = n
        self.sig = bytes(wire[:n])
        return n


def comp_bytes(c, rng):
    return st.write_var(c['t']) + st.write_var(c['l']) + rng.randbytes(c['l'])


def name_bytes(cs, rng):
    return [comp_bytes(c, rng) for c in cs]


def uint_of_width(w, rng):
    lo, hi = {1: (0, 0xFF), 2: (0x100, 0xFFFF), 4: (0x10000, 0xFFFFFFFF), 8: (1 << 32, (1 << 64) - 1)}[w]
    return rng.choice([lo, hi, rng.randint(lo, hi)])


def make_inner(sg, pool, kl, kl_canon=None):
    """The real (or synthetic) signer object for a signer model; None for an unsigned packet."""
    k = sg['kind']
    if k == 'none':
        return None
    if k in ('digest', 'digestI'):
        return DigestSha256Signer(for_interest=(k == 'digestI'))
    if k == 'hmac':
        # (the key is chosen by the canonical key name: kl itself may be a one-shot iterator)
        key = pool.hmac_for(kl if kl_canon is None else kl_canon)
        sgn = HmacSha256Signer(kl, key)
        sgn._verif_key = key            # the verifier of a packet asks the signer object that signed it (signers are reused)
        return sgn
    if k == 'rsa':
        return Sha256WithRsaSigner(kl, pool.rsa[0])
    if k == 'ed25519':
        return Ed25519Signer(kl, pool.ed[0])
    if k == 'null':
        return NullSigner()
    if k == 'ecdsa':
        return Sha256WithEcdsaSigner(kl, pool.ec[sg['r']][0])
    if k == 'syn':
        return SynSigner(sg['r'], sg['a'], sg['st'], kl if sg['haskl'] else None)
    raise MachineryError('unknown signer kind %r' % k)


def make_signer(sg, rng, pool, kl, target=True, inner=None, kl_canon=None):
    """-> Recorder around a fresh signer (or around `inner`, a signer object that is being reused), or None"""
    if inner is None:
        inner = make_inner(sg, pool, kl, kl_canon)
    if inner is None:
        return None
    return Recorder(inner, target=sg['a'] if (sg['kind'] == 'ecdsa' and target) else None)


# ----------------------------------------------------------------------------- representations (NdnPackets: cfg.rep)

ANY_FORM = {'box': 'any', 'item': 'any'}
SEQ_BOXES = ('list', 'tuple', 'iter')
FLAT_BOXES = ('uri', 'wire', 'wirebuf', 'wireview')
ITEM_KINDS = ('bytes', 'views', 'strs', 'mixed')
NAME_FORMS = [{'box': b_, 'item': i_} for b_ in SEQ_BOXES for i_ in ITEM_KINDS] + [{'box': b_, 'item': 'none'} for b_ in FLAT_BOXES]
BIN_FORMS = ('bytes', 'bytearray', 'memoryview')
# the form names build(name_form=...) has always taken, as forms of the specification
LEGACY_FORMS = {'tuple': {'box': 'tuple', 'item': 'bytes'}, 'iter': {'box': 'iter', 'item': 'bytes'},
                'uri': {'box': 'uri', 'item': 'none'}, 'wire': {'box': 'wire', 'item': 'none'},
                'wirebuf': {'box': 'wirebuf', 'item': 'none'}, 'views': {'box': 'list', 'item': 'views'},
                'plain': {'box': 'list', 'item': 'bytes'}}
DEF_REP = {'name': ANY_FORM, 'fh': [], 'kl': ANY_FORM, 'fbi': 'any', 'pay': 'any'}
# rotation of the positions a configuration leaves open; strides co-prime with the number of forms, so that the
# positions do not move in step
_ROT = {'fh': 0, 'kl': 0, 'fbi': 0, 'pay': 0}


def _rot_form(pos):
    _ROT[pos] += 1
    return NAME_FORMS[(_ROT[pos] * {'fh': 5, 'kl': 7}[pos]) % len(NAME_FORMS)]


def _rot_bin(pos):
    _ROT[pos] += 1
    return BIN_FORMS[_ROT[pos] % 3]


def name_arg(form, comps):
    """The list of encoded components `comps` as the NonStrictName representation `form` (NdnPackets!Arg)."""
    cs = [bytes(c) for c in comps]
    box, item = form['box'], form['item']
    try:
        return _name_arg(box, item, cs)
    except MachineryError:
        raise
    except Exception:  # noqa: the URI text comes from the library (Name.to_str: C09's subject); without it, the plain form
        return cs


def _name_arg(box, item, cs):
    if box == 'uri':
        return enc.Name.to_str(cs)
    if box == 'wire':
        return enc.Name.to_bytes(cs)
    if box == 'wirebuf':
        return bytearray(enc.Name.to_bytes(cs))
    if box == 'wireview':
        return memoryview(bytearray(enc.Name.to_bytes(cs)))
    if item == 'bytes':
        items = cs
    elif item == 'views':
        items = [memoryview(bytearray(c)) for c in cs]
    elif item == 'strs':
        items = [enc.Component.to_str(c) for c in cs]
    elif item == 'mixed':
        items = [enc.Component.to_str(c) if i % 2 == 0 else c for i, c in enumerate(cs)]
    else:
        raise MachineryError('unknown item kind %r' % (item,))
    if box == 'list':
        return items
    if box == 'tuple':
        return tuple(items)
    if box == 'iter':
        return (c for c in items)                          # a one-shot iterator is an Iterable too
    raise MachineryError('unknown name box %r' % (box,))


def bin_arg(form, data):
    """Octet-string parameter `data` (bytes or None) as bytes / bytearray / memoryview."""
    if data is None or form == 'bytes':
        return data
    if form == 'bytearray':
        return bytearray(data)
    if form == 'memoryview':
        return memoryview(bytearray(data))
    raise MachineryError('unknown octet-string form %r' % (form,))


def _pinned(f):
    return f is not None and f != 'any' and (not isinstance(f, dict) or f.get('box') != 'any')


def rand_rep(rng, cfg):
    """A representation for every name-valued / octet-string parameter of cfg, drawn from rng."""
    def nf():
        return dict(rng.choice(NAME_FORMS))
    return {'name': nf(), 'fh': [nf() for _ in cfg.get('fh', [])], 'kl': nf(),
            'fbi': rng.choice(BIN_FORMS), 'pay': rng.choice(BIN_FORMS)}


class Built:
    pass


_FORM = {'n': 0}


def build(cfg, rng, pool, target=True, name_form='list', live=None):
    """Call the real make_interest / make_data for the abstract cfg. Returns Built with
    .wire (bytes) or .exc, .rec (Recorder or None) and the concrete inputs.
    live = (signer object, its key-locator name): sign with this long-lived signer instead of a fresh one."""
    b = Built()
    b.cfg = cfg
    b.comps = name_bytes(cfg['name'], rng)
    # the representation actually used for every parameter (same shape as cfg.rep; a replay pins it: cfg.rep = b.forms)
    forms = b.forms = {'name': ANY_FORM, 'fh': [], 'kl': ANY_FORM, 'fbi': 'any', 'pay': 'any'}
    b.kl_form = None
    if live is not None:
        b.kl = live[1]
        b.rec = make_signer(cfg['sg'], rng, pool, b.kl, target, inner=live[0])
    else:
        b.kl = name_bytes(cfg['sg']['kl'], rng) if cfg['sg']['haskl'] else None
        kl_given = b.kl
        if b.kl is not None and cfg['sg']['kind'] != 'none':
            # the signer is constructed with the key name in its representation; b.kl stays the list of encoded components
            r_ = (cfg.get('rep') or DEF_REP).get('kl')
            b.kl_form = forms['kl'] = dict(r_) if _pinned(r_) else _rot_form('kl')
            kl_given = name_arg(b.kl_form, b.kl)
        b.rec = make_signer(cfg['sg'], rng, pool, kl_given, target, kl_canon=b.kl)
    b.exc = None
    b.wire = None
    b.final_name = None
    # the name in the forms a NonStrictName may take; 'auto' (every caller that does not ask for a form) rotates
    # through them, so that each abstract configuration is sooner or later built from every form.
    # Precedence: an explicit name_form argument, then the form the configuration pins (cfg.rep.name), then the rotation.
    rep = cfg.get('rep') or DEF_REP
    if name_form == 'list' and _pinned(rep.get('name')):
        forms['name'] = dict(rep['name'])
        name_form = 'rep'
    elif name_form == 'list':
        _FORM['n'] += 1
        name_form = ('list', 'list', 'tuple', 'iter', 'uri', 'wire', 'wirebuf', 'views')[_FORM['n'] % 8]
    if name_form != 'rep':
        if isinstance(name_form, dict):
            forms['name'] = dict(name_form)
        else:
            forms['name'] = dict(LEGACY_FORMS.get(name_form, LEGACY_FORMS['plain']))
    b.name_form = name_form
    name_arg_ = name_arg(forms['name'], b.comps) if forms['name'] != LEGACY_FORMS['plain'] else b.comps
    import ndn.security.signer.sha256_digest_signer as dsm
    saved = dsm.gen_nonce_64
    if cfg['sg']['kind'] == 'digestI':
        b.sig_nonce = uint_of_width(cfg['sg']['nonce'], rng)
        dsm.gen_nonce_64 = lambda: b.sig_nonce
    try:
        if cfg['kind'] == 'interest':
            b.fh = [name_bytes(n, rng) for n in cfg['fh']]
            rfh = rep.get('fh') or []
            forms['fh'] = [dict(rfh[i]) if i < len(rfh) and _pinned(rfh[i]) else _rot_form('fh') for i in range(len(b.fh))]
            b.param = InterestParam(
                can_be_prefix=cfg['cbp'], must_be_fresh=cfg['mbf'],
                nonce=rng.getrandbits(32) if cfg['nonce'] else None,
                lifetime=uint_of_width(cfg['life'], rng) if cfg['life'] else None,
                hop_limit=rng.randrange(256) if cfg['hop'] else None,
                forwarding_hint=[name_arg(f, n) for f, n in zip(forms['fh'], b.fh)])
            b.payload = rng.randbytes(cfg['app']) if cfg['app'] >= 0 else None
            forms['pay'] = rep['pay'] if _pinned(rep.get('pay')) else _rot_bin('pay')
            try:
                w, fn = make_interest(name_arg_, b.param, bin_arg(forms['pay'], b.payload), signer=b.rec, need_final_name=True)
                b.raw, b.raw_final_name = w, fn          # the caller's objects, kept alive by histories
                b.wire = bytes(w)
                b.final_name = [bytes(c) for c in fn]
            except Exception as e:  # noqa
                b.exc = e
        else:
            m = cfg['meta']
            if m['p']:
                b.meta = MetaInfo(content_type=uint_of_width(m['ct'], rng) if m['ct'] else None,
                                  freshness_period=uint_of_width(m['fp'], rng) if m['fp'] else None,
                                  final_block_id=rng.randbytes(m['fbi']) if m['fbi'] >= 0 else None)
                b.meta_in = (b.meta.content_type, b.meta.freshness_period, b.meta.final_block_id)
                forms['fbi'] = rep['fbi'] if _pinned(rep.get('fbi')) else _rot_bin('fbi')
                b.meta.final_block_id = bin_arg(forms['fbi'], b.meta.final_block_id)
            else:
                b.meta = None
                b.meta_in = None
            b.payload = rng.randbytes(cfg['content']) if cfg['content'] >= 0 else None
            forms['pay'] = rep['pay'] if _pinned(rep.get('pay')) else _rot_bin('pay')
            try:
                b.raw = make_data(name_arg_, b.meta, bin_arg(forms['pay'], b.payload), signer=b.rec)
                b.wire = bytes(b.raw)
            except Exception as e:  # noqa
                b.exc = e
    finally:
        dsm.gen_nonce_64 = saved
    return b


# ----------------------------------------------------------------------------- verifiers

def run_sync(coro):
    try:
        coro.send(None)
    except StopIteration as e:
        return e.value
    raise MachineryError('validator suspended')


class Verifier:
    """The matching verifier(s) for a built packet: library functions (what the property names) and an
    independent PyCryptodome call on explicit bytes."""

    def __init__(self, cfg, b, pool):
        self.kind = k = cfg['sg']['kind']
        self.pool = pool
        self.kl = b.kl
        self.hkey = getattr(getattr(b, 'rec', None), '_verif_key', None) if k == 'hmac' else None
        if k == 'hmac' and self.hkey is None:
            self.hkey = pool.hmac
        self.has = k in ('digest', 'digestI', 'hmac', 'rsa', 'ecdsa', 'ed25519') or (k == 'syn' and cfg['sg']['a'] >= 16)
        self.syn_a = cfg['sg']['a']
        self.ec = pool.ec.get(cfg['sg']['r'], (None, None))[1] if k == 'ecdsa' else None

    def lib(self, name, sp, raw_only=False):
        """-> list of (verifier-name, accepted); raw_only: just verify_* (the *Checker classes wrap it and can only
        be stricter), used in the tamper loops"""
        k = self.kind
        out = []
        try:
            if k in ('digest', 'digestI'):
                ok = bool(sp.signature_info) and sp.signature_info.signature_type == SignatureType.DIGEST_SHA256 \
                    and run_sync(sha256_digest_checker(name, sp))
                out.append(('sha256_digest_checker', bool(ok)))
            elif k == 'hmac':
                out.append(('verify_hmac', bool(verify_hmac(self.hkey, sp))))
                if not raw_only:
                    out.append(('HmacChecker', bool(run_sync(HmacChecker.from_key(self.kl, self.hkey)(name, sp)))))
            elif k == 'rsa':
                out.append(('verify_rsa', bool(verify_rsa(self.pool.rsa[1], sp))))
                if not raw_only:
                    out.append(('RsaChecker', bool(run_sync(RsaChecker.from_key(self.kl, self.pool.pub_der('rsa'))(name, sp)))))
            elif k == 'ecdsa':
                out.append(('verify_ecdsa', bool(verify_ecdsa(self.ec, sp))))
                if not raw_only:
                    out.append(('EccChecker', bool(run_sync(EccChecker.from_key(self.kl, self.ec.export_key(format='DER'))(name, sp)))))
            elif k == 'ed25519':
                out.append(('verify_ed25519', bool(verify_ed25519(self.pool.ed[1], sp))))
                if not raw_only:
                    out.append(('Ed25519Checker', bool(run_sync(Ed25519Checker.from_key(self.kl, self.pool.pub_der('ed25519'))(name, sp)))))
            elif k == 'syn':
                cov = b''.join(bytes(c) for c in sp.signature_covered_part)
                h = hashlib.sha256(cov).digest()
                out.append(('syn-verifier', bytes(sp.signature_value_buf or b'') == (h * (self.syn_a // 32 + 1))[:self.syn_a]))
        except Exception:  # noqa: a verifier that raises has not accepted
            out.append(('raised', False))
        return out

    def accepted(self, name, sp):
        return [n for n, ok in self.lib(name, sp, raw_only=True) if ok]

    def independent(self, covered, sig):
        """PyCryptodome directly on explicit bytes."""
        k = self.kind
        try:
            if k in ('digest', 'digestI'):
                return hashlib.sha256(covered).digest() == sig
            if k == 'hmac':
                return HMAC.new(self.hkey, covered, digestmod=SHA256).digest() == sig
            if k == 'rsa':
                pkcs1_15.new(self.pool.rsa[1]).verify(SHA256.new(covered), sig)
                return True
            if k == 'ecdsa':
                DSS.new(self.ec, 'fips-186-3', 'der').verify(SHA256.new(covered), sig)
                return True
            if k == 'ed25519':
                eddsa.new(self.pool.ed[1], 'rfc8032').verify(covered, sig)
                return True
        except ValueError:
            return False
        return True


# ----------------------------------------------------------------------------- projection

# context-dependent container table: type -> table of its children (present = container)
CONT = {5: {7: {}, 30: {7: {}}, 44: {28: {7: {}}}},
        6: {7: {}, 20: {}, 22: {28: {7: {}}, 253: {}}}}


def _lay(buf, start, end, cont, d, out):
    for t, off, offv, endv in st.read_elements(buf, start, end):
        out.append((d, t, off, offv - off, endv - offv))
        if cont is not None and t in cont:
            _lay(buf, offv, endv, cont[t], d + 1, out)


def layout(wire):
    """Strict projection of a wire; raises strict_tlv.TlvError if it is not well-formed TLV."""
    buf = bytes(wire)
    out = []
    _lay(buf, 0, len(buf), CONT, 0, out)
    return out


def lay_json(lay):
    return [{'d': d, 't': t, 'off': o, 'hdr': h, 'len': n} for d, t, o, h, n in lay]


def first_diff(exp, obs):
    """Stable description of the first difference between two layouts."""
    if len([e for e in obs if e[0] == 0]) != 1:
        return 'not-one-element'
    for i, (e, o) in enumerate(zip(exp, obs)):
        if e != o:
            for k, f in enumerate(('depth', 'type', 'offset', 'header-size', 'length')):
                if e[k] != o[k]:
                    return 't%d-%s' % (e[1], f)
    return 'element-count'


def top_elements(wire):
    """[(t, off, off_v, end_v)] of the elements inside the outer element."""
    els = st.read_elements(wire)
    if len(els) != 1:
        raise st.TlvError('not-one-element', 0)
    return st.read_elements(wire, els[0][2], els[0][3])


def slices(wire, ivs):
    return b''.join(bytes(wire[i['lo']:i['hi']]) for i in ivs)


def mv_offset(base, mv):
    """Offset of memoryview mv inside bytearray base (None if it is not a view into it)."""
    try:
        if len(mv) == 0:
            return None
        a0 = ctypes.addressof(ctypes.c_char.from_buffer(base))
        a1 = ctypes.addressof(ctypes.c_char.from_buffer(mv))
    except (TypeError, ValueError):
        return None
    off = a1 - a0
    return off if 0 <= off <= len(base) - len(mv) else None


def merge_ivs(ivs):
    out = []
    for lo, hi in ivs:
        if out and out[-1][1] == lo:
            out[-1][1] = hi
        else:
            out.append([lo, hi])
    return [{'lo': a, 'hi': b} for a, b in out]


# ----------------------------------------------------------------------------- random configurations (stage C)

COMP_TYPES = [8, 8, 8, 8, 1, 32, 50, 54, 58, 252, 253, 300, 65535]


def rand_comp(rng, allow_pd):
    t = rng.choice(COMP_TYPES + ([T_PD] if allow_pd else []))
    if t == T_PD and rng.random() < 0.03:
        return {'t': t, 'l': rng.choice([0, 1, 31, 33, 64])}      # a placeholder of a wrong length: must be refused
    if t in (1, T_PD):
        return {'t': t, 'l': 32}
    l = rng.choice([0, 1, 1, 2, 3, 5, 8, 20, 100, 249, 250, 251, 252, 253, 254, 300]) if rng.random() < 0.85 \
        else rng.randint(0, 400)
    return {'t': t, 'l': l}


def rand_name(rng, maxc, allow_pd=False):
    n = rng.randint(0, maxc)
    cs = []
    pd_used = False
    for _ in range(n):
        c = rand_comp(rng, allow_pd and not pd_used)
        pd_used = pd_used or c['t'] == T_PD
        cs.append(c)
    return cs


BND = [252, 253, 254, 65535, 65536, 65537]


def rand_len(rng, big=True):
    x = rng.random()
    if x < 0.1:
        return -1
    if x < 0.2:
        return rng.choice([0, 1])
    if x < 0.45:
        return rng.randint(0, 300)
    if x < 0.8 or not big:
        return max(0, rng.choice(BND[:3] if not big else BND) - rng.randint(0, 420))
    return rng.randint(0, 70000)


NO_SG = {'kind': 'none', 'r': 0, 'a': 0, 'st': False, 'haskl': False, 'kl': [], 'nonce': 0, 'time': 0, 'seq': 0}


def rand_signer(rng, kind):
    k = rng.choice(['none', 'none', 'digest', 'hmac', 'rsa', 'ed25519', 'null', 'ecdsa', 'ecdsa', 'syn', 'syn'] +
                   (['digestI'] if kind == 'interest' else []))
    sg = dict(NO_SG)
    if k == 'none':
        return sg
    sg['kind'] = k
    sg['st'] = True
    fixed = {'digest': 32, 'digestI': 32, 'hmac': 32, 'rsa': 256, 'ed25519': 64, 'null': 0}
    if k in fixed:
        sg['r'] = sg['a'] = fixed[k]
    elif k == 'ecdsa':
        sg['r'] = rng.choice([72, 72, 104, 140])
        sg['a'] = -1        # observed
    else:
        sg['r'] = rng.choice([0, 1, 5, 9, 40, 72, 200, 251, 252, 252, 253, 254, 300, 600])
        sg['a'] = min(sg['r'], rng.choice([0, 1, max(0, sg['r'] - 1), sg['r'], sg['r'], rng.randint(0, sg['r'])]))
        sg['st'] = rng.random() < 0.8
    if k in ('hmac', 'rsa', 'ed25519', 'ecdsa') or (k == 'syn' and rng.random() < 0.5):
        sg['haskl'] = True
        sg['kl'] = rand_name(rng, 5)
    if k == 'digestI':
        sg['time'] = 8
        sg['nonce'] = rng.choice([1, 2, 4, 8])
    return sg


def rand_cfg(rng, kind=None, maxc=8, big=True):
    kind = kind or rng.choice(['interest', 'data'])
    c = {'kind': kind, 'name': [], 'cbp': False, 'mbf': False, 'fh': [], 'nonce': False, 'life': 0, 'hop': False,
         'app': -1, 'meta': {'p': False, 'ct': 0, 'fp': 0, 'fbi': -1}, 'content': -1, 'sg': rand_signer(rng, kind),
         'vp': False}
    if kind == 'interest':
        c['app'] = rand_len(rng, big)
        need = c['app'] >= 0 or c['sg']['kind'] != 'none'
        c['name'] = rand_name(rng, maxc, allow_pd=need or rng.random() < 0.1)
        c['cbp'], c['mbf'], c['nonce'], c['hop'] = (rng.random() < 0.5 for _ in range(4))
        c['life'] = rng.choice([0, 1, 2, 2, 4, 8])
        c['fh'] = [rand_name(rng, 4) for _ in range(rng.choice([0, 0, 1, 2, 3]))]
    else:
        c['name'] = rand_name(rng, maxc, allow_pd=True)
        c['content'] = rand_len(rng, big)
        if rng.random() < 0.8:
            c['meta'] = {'p': True, 'ct': rng.choice([0, 1, 1, 2, 4, 8]), 'fp': rng.choice([0, 1, 2, 4, 8]),
                         'fbi': rng.choice([-1, -1, 0, 3, 10, 260])}
    # the representation of every name-valued / octet-string parameter: drawn from a generator derived from the
    # configuration, not from rng (the sequence of configurations for a given seed stays what it was); the packet name
    # stays open in one configuration of three (rotation / the caller's name_form)
    rr = random.Random(zlib.crc32(json.dumps(c, sort_keys=True).encode()))
    c['rep'] = rand_rep(rr, c)
    if rr.random() < 0.34:
        c['rep']['name'] = dict(ANY_FORM)
    return c


# ----------------------------------------------------------------------------- TLC judge

def judge(ctx, module, cfgfile, recs, name):
    """Batch-validate records with a *Trace module. Returns [(index0, code)] of rejected records."""
    tf = os.path.join(tlc.BUILD, '%s-%s.ndjson' % (name, ctx.tier))
    rejected = []
    step = 20000
    for lo in range(0, len(recs), step):
        chunk = recs[lo:lo + step]
        with open(tf, 'w') as f:
            for r in chunk:
                f.write(json.dumps(r) + '\n')
        r, rej = tlc.validate_traces(module, cfgfile, tf, heavy=len(chunk) > 3000)
        ctx.add_tlc('%s (%d records)' % (module, len(chunk)), r)
        if r.violated:
            raise MachineryError('%s: unexpected invariant violation %s' % (module, r.violated))
        rejected += [(lo + i - 1, code) for i, code in rej]
    return rejected
