"""Rdr.tla bound to the real tools: cmd_serve_rdrcontent.execute (producer) and cmd_fetch_rdrcontent.execute
(consumer) run unmodified, each on its own appv2 NDNApp with a harness face; the harness is the network between
the two faces (delivery, loss, late delivery, Nacks, PIT tokens) and nothing else.

RdrRun.apply(act, args) executes one Rdr action; RdrRun.project() returns the observable part of the state in the
shape of the specification (consumer phase, Interests sent, packets under way, result)."""
import argparse, contextlib, io, os, tempfile

from harness import tlc
from harness.appkit import new_app, deliver, Session

from ndn import encoding as enc
from ndn.encoding import ndnlp_v2 as lp
import ndn.bin.tools.cmd_serve_rdrcontent as srv
import ndn.bin.tools.cmd_fetch_rdrcontent as fch

M = -1
VERSION = 1700000000123
LIFETIME = 4000


class Mismatch(Exception):
    """the implementation did something the harness cannot map to the specification (reported as a difference)"""


def _content(n, size, last):
    """n segments of `size` bytes, the last one `last` bytes long; every byte depends on its position"""
    total = (n - 1) * size + last
    return bytes((7 * i + (i >> 8)) % 251 for i in range(total))


class RdrRun:
    def __init__(self, cfg, prefix='/rdr/obj', size=16, last=None, lifetime=LIFETIME, fresh=False, retry_arg=None,
                 nack_reasons=(150, 50, 100, 0), lp_to_consumer=False, seed=0):
        self.cfg = cfg
        self.n, self.retry, self.given = cfg['n'], cfg['retry'], cfg['given']
        self.size = size
        self.lifetime = lifetime
        self.content = _content(self.n, size, size if last is None else last)
        self.sess = Session()
        self.sess.__enter__()
        self.closed = False
        self.prefix = enc.Name.from_str(prefix)
        ver = enc.Component.from_version(VERSION)
        self.meta_name = self.prefix + [fch.METADATA_COMPONENT, ver]
        self.data_name = self.prefix + [ver]
        self.papp, self.pface = new_app('v2')
        self.capp, self.cface = new_app('v2')
        self.tmp = tempfile.mkdtemp(prefix='rdr-', dir=tlc.BUILD)
        self.net = {}            # id -> dict(k, id, req, tok, fin, wire, ...)
        self.nsent = 0
        self.sent = []           # (id, req, time in ms)
        self.cseen = 0           # packets of the consumer face already looked at
        self.pseen = 0
        self.nack_reasons = nack_reasons
        self.nnack = 0
        self.lp_to_consumer = lp_to_consumer
        self.seed = seed
        self.stdout = io.StringIO()
        self.task = None
        self.problems = []
        self._serve()
        uri = {'prefix': self.prefix, 'metaver': self.meta_name, 'dataver': self.data_name}[self.given]
        if retry_arg is None:
            retry_arg = self.retry if self.retry > 0 else (-1, 0)[seed % 2]
        self.out_path = os.path.join(self.tmp, 'out.bin')
        self.fargs = argparse.Namespace(output=self.out_path, lifetime=lifetime, fresh=fresh, retries=retry_arg,
                                        pipeline_type='fixed', name=enc.Name.to_str(uri))

    # ---- set-up of the two tools ------------------------------------------------------------------
    def _serve(self):
        src = os.path.join(self.tmp, 'in.bin')
        with open(src, 'wb') as f:
            f.write(self.content)
        args = argparse.Namespace(freshness=60000, size=self.size, name=enc.Name.to_str(self.prefix), file=src)
        old = (srv.NDNApp, srv.timestamp)
        self.papp.run_forever = lambda *a, **k: None      # the harness drives the loop
        srv.NDNApp = lambda: self.papp
        srv.timestamp = lambda: VERSION
        try:
            with contextlib.redirect_stdout(io.StringIO()):
                rc = srv.execute(args)
        finally:
            srv.NDNApp, srv.timestamp = old
        if rc is not None:
            raise Mismatch('serve-rdrcontent returned %r' % (rc,))
        self.sess.loop.settle()
        self.pseen = len(self.pface.out)

    def _begin(self):
        box = {}
        old = fch.NDNApp
        self.capp.run_forever = lambda after_start=None: box.__setitem__('co', after_start)
        fch.NDNApp = lambda: self.capp
        # the tool reports through print(): give the module its own print (a redirect_stdout held across an await
        # would capture everybody's output while the coroutine is suspended)
        fch.print = lambda *a, **k: self.stdout.write(' '.join(str(x) for x in a) + '\n')
        try:
            rc = fch.execute(self.fargs)
        finally:
            fch.NDNApp = old
        if rc is not None or 'co' not in box:
            raise Mismatch('fetch-rdrcontent returned %r before starting' % (rc,))

        self.task = self.sess.spawn(box['co'])

    # ---- the network ------------------------------------------------------------------------------
    def _req_of_interest(self, name, cbp):
        name = [bytes(c) for c in name]
        if self.given == 'prefix' and name == [bytes(c) for c in self.prefix]:
            want_cbp, req = True, M
        elif name == [bytes(c) for c in self.meta_name]:
            want_cbp, req = True, M
        elif name[:-1] == [bytes(c) for c in self.data_name] and enc.Component.get_type(name[-1]) == enc.Component.TYPE_SEGMENT:
            want_cbp, req = False, enc.Component.to_number(name[-1])
        else:
            raise Mismatch('unexpected Interest name %s' % enc.Name.to_str(name))
        if bool(cbp) != want_cbp:
            raise Mismatch('CanBePrefix=%s on the Interest for %s' % (cbp, 'metadata' if req == M else 'segment %d' % req))
        return req

    def _collect_consumer(self, tok):
        """Interests the consumer put on its face since the last look -> packets under way"""
        new = self.cface.out[self.cseen:]
        self.cseen = len(self.cface.out)
        for wire in new:
            name, param, app_param, sig = enc.parse_interest(wire)
            req = self._req_of_interest(name, param.can_be_prefix)
            if param.lifetime != self.lifetime:
                raise Mismatch('InterestLifetime %r, asked for %r' % (param.lifetime, self.lifetime))
            if bool(param.must_be_fresh) != bool(self.fargs.fresh):
                raise Mismatch('MustBeFresh %r, asked for %r' % (param.must_be_fresh, self.fargs.fresh))
            self.nsent += 1
            self.sent.append((self.nsent, req, self.sess.ms()))
            self.net[self.nsent] = {'k': 'I', 'id': self.nsent, 'req': req, 'tok': bool(tok), 'fin': 0, 'wire': wire, 'name': name}
        if len(new) > 1:
            raise Mismatch('%d Interests sent in one step' % len(new))

    def _settle(self, tok):
        self.sess.loop.settle()
        if self.sess.loop.errors:
            e = self.sess.loop.errors[0]
            raise Mismatch('event loop error: %s %r' % (e.get('message'), e.get('exception')))
        self._collect_consumer(tok)

    def apply(self, act, args):
        if act == 'Begin':
            self._begin()
            self._settle(args[0])
        elif act == 'PRecv':
            p = self._pkt({'id': args[0]} if isinstance(args[0], int) else args[0], 'I')
            del self.net[p['id']]
            wire = p['wire']
            token = None
            if p['tok']:
                token = bytes((p['id'] * 37 + i * 11 + self.seed) % 256 for i in range(8 if p['id'] % 3 else 4))
                pkt = lp.LpPacket()
                pkt.lp_packet = lp.LpPacketValue()
                pkt.lp_packet.pit_token = token
                pkt.lp_packet.fragment = wire
                wire = bytes(pkt.encode())
            exc = deliver(self.sess, self.pface, wire)
            if exc is not None:
                raise Mismatch('producer receive path raised %s: %s' % (type(exc).__name__, exc))
            new = self.pface.out[self.pseen:]
            self.pseen = len(self.pface.out)
            if len(new) > 1:
                raise Mismatch('producer answered one Interest with %d packets' % len(new))
            for w in new:
                self.net[p['id']] = self._data_packet(p, w, token)
            self._settle(False)
        elif act == 'CData':
            p = self._pkt({'id': args[0]} if isinstance(args[0], int) else args[0], 'D')
            del self.net[p['id']]
            wire = p['wire']
            if self.lp_to_consumer and p['id'] % 2:
                pkt = lp.LpPacket()
                pkt.lp_packet = lp.LpPacketValue()
                pkt.lp_packet.fragment = wire
                wire = bytes(pkt.encode())
            exc = deliver(self.sess, self.cface, wire)
            if exc is not None:
                raise Mismatch('consumer receive path raised %s: %s' % (type(exc).__name__, exc))
            self._settle(args[1])
        elif act == 'CTimeout':
            cur = self.sent[-1]
            self.sess.loop.advance_to((cur[2] + self.lifetime) / 1000.0)
            self._settle(args[0])
        elif act == 'CNack':
            p = self._pkt({'id': args[0]} if isinstance(args[0], int) else args[0], 'I')
            del self.net[p['id']]
            reason = self.nack_reasons[self.nnack % len(self.nack_reasons)]
            self.nnack += 1
            self.last_nack = reason
            wire = self._nack(p['wire'], reason)
            exc = deliver(self.sess, self.cface, wire)
            if exc is not None:
                raise Mismatch('consumer receive path raised %s: %s' % (type(exc).__name__, exc))
            self._settle(args[1])
        elif act == 'Lose':
            p = self._pkt({'id': args[0]} if isinstance(args[0], int) else args[0], None)
            del self.net[p['id']]
        else:
            raise tlc.MachineryError('unknown Rdr action %s' % act)

    @staticmethod
    def _nack(interest, reason):
        pkt = lp.LpPacket()
        pkt.lp_packet = lp.LpPacketValue()
        pkt.lp_packet.nack = lp.NetworkNack()
        pkt.lp_packet.nack.nack_reason = reason
        pkt.lp_packet.fragment = interest
        return bytes(pkt.encode())

    def _pkt(self, rec, kind):
        pid = rec['id']
        p = self.net.get(pid)
        if p is None or (kind and p['k'] != kind):
            raise Mismatch('the specification delivers packet %r but the implementation has %r under way'
                           % (dict(rec), {k: v for k, v in (p or {}).items() if k in ('k', 'id', 'req', 'tok', 'fin')}))
        return p

    def _data_packet(self, interest, w, token):
        tok_back = False
        typ, _ = enc.parse_tl_num(w)
        if typ == enc.LpTypeNumber.LP_PACKET:
            lpv = lp.LpPacket.parse(w).lp_packet
            if lpv.nack is not None:
                raise Mismatch('producer answered with a Nack header')
            if token is not None:
                if lpv.pit_token is None or bytes(lpv.pit_token) != token:
                    raise Mismatch('PIT token %r echoed as %r' % (token.hex(), None if lpv.pit_token is None else bytes(lpv.pit_token).hex()))
                tok_back = True
            elif lpv.pit_token is not None:
                raise Mismatch('PIT token on the answer to an Interest that had none')
            w = bytes(lpv.fragment)
        elif token is not None:
            raise Mismatch('answer to an Interest with a PIT token left the producer without the token')
        name, meta, content, sig = enc.parse_data(w)
        name = [bytes(c) for c in name]
        seg0 = enc.Component.from_segment(0)
        if name == [bytes(c) for c in self.meta_name + [seg0]]:
            req = M
            if bytes(content) != enc.Name.to_bytes(self.data_name):
                raise Mismatch('metadata packet does not carry the versioned data name')
            fin = self.n - 1 if meta.final_block_id == seg0 else -7
        elif name[:-1] == [bytes(c) for c in self.data_name] and enc.Component.get_type(name[-1]) == enc.Component.TYPE_SEGMENT:
            req = enc.Component.to_number(name[-1])
            lo = req * self.size
            if bytes(content or b'') != self.content[lo:lo + self.size]:
                raise Mismatch('segment %d does not carry bytes %d.. of the served file' % (req, lo))
            fb = meta.final_block_id
            fin = enc.Component.to_number(fb) if fb is not None and enc.Component.get_type(fb) == enc.Component.TYPE_SEGMENT else -7
        else:
            raise Mismatch('producer answered with an unexpected name %s' % enc.Name.to_str(name))
        if meta.freshness_period != 60000:
            raise Mismatch('FreshnessPeriod %r, asked for 60000' % (meta.freshness_period,))
        return {'k': 'D', 'id': interest['id'], 'req': req, 'tok': tok_back if token is not None else False, 'fin': fin, 'wire': w}

    # ---- observation ------------------------------------------------------------------------------
    def project(self):
        out = self.stdout.getvalue()
        if self.task is None:
            pc = 'start'
        elif not self.task.done():
            pc = 'wait'
        else:
            if self.task.cancelled() or self.task.exception() is not None:
                pc = 'crashed: %r' % (None if self.task.cancelled() else self.task.exception())
            elif out.startswith('Segment Count:'):
                pc = 'done'
            else:
                pc = 'fail'
        err, got = 'none', None
        if pc == 'fail':
            line = out.strip().splitlines()[0] if out.strip() else ''
            if line == 'Timeout':
                err = 'timeout'
            elif line.startswith('Nacked with reason='):
                err = 'nack' if line == 'Nacked with reason=%s' % self.last_nack else 'nack-wrong-reason:' + line
            else:
                err = 'other: ' + line
        if pc == 'done':
            line = out.strip().splitlines()[0]
            try:
                data = open(self.out_path, 'rb').read()
            except OSError:
                data = None
            k = self.n
            want = 'Segment Count: %d  Content size: %d' % (k, len(self.content))
            got = 'exact' if (line == want and data == self.content) else 'differs: %s / file %s' % (line, 'missing' if data is None else len(data))
        net = sorted((p['k'], p['id'], p['req'], p['tok'], p['fin']) for p in self.net.values())
        return {'pc': pc, 'err': err, 'nsent': self.nsent, 'req': self.sent[-1][1] if self.sent and pc == 'wait' else None,
                'net': net, 'result': got, 'face_up': bool(self.cface.running)}

    def close(self):
        if self.closed:
            return
        self.closed = True
        fch.__dict__.pop('print', None)
        try:
            self.sess.__exit__(None, None, None)
        finally:
            import shutil
            shutil.rmtree(self.tmp, ignore_errors=True)


def expected(st):
    """Rdr state (parsed TLC value) -> the same projection"""
    c = st['c']
    cfg = st['cfg']
    pc = c['pc']
    net = sorted((p['k'], p['id'], p['req'], p['tok'], p['fin'] if p['k'] == 'D' else 0) for p in st['net'])
    req = None
    if pc == 'wait':
        req = M if c['stage'] == 'meta' else c['seg']
    return {'pc': pc, 'err': c['err'], 'nsent': st['nsent'], 'req': req, 'net': net,
            'result': 'exact' if pc == 'done' else None, 'face_up': pc not in ('done', 'fail')}
