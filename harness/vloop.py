"""Virtual-time asyncio loop + virtual face used by all stateful executors.

The loop's selector never blocks: select(timeout) advances a virtual clock. time.time is
patched to the same clock while a Session is open (ndn.utils.timestamp, SVS and the
registerer read time.time()). Macro-step discipline: the executor applies one stimulus,
then calls settle() which runs every callback that is ready *at the current virtual
instant* without advancing time; advance(t) moves time to t firing timers in order.
"""
import asyncio, heapq, selectors, time as _time

from harness.core import use_repo
use_repo()


class _FakeSelector(selectors.BaseSelector):
    def __init__(self):
        self._map = {}

    def register(self, fileobj, events, data=None):
        k = selectors.SelectorKey(fileobj, fileobj if isinstance(fileobj, int) else fileobj.fileno(), events, data)
        self._map[fileobj] = k
        return k

    def unregister(self, fileobj):
        return self._map.pop(fileobj)

    def modify(self, fileobj, events, data=None):
        self.unregister(fileobj)
        return self.register(fileobj, events, data)

    def select(self, timeout=None):
        return []

    def get_map(self):
        return self._map

    def close(self):
        pass


class SpinError(Exception):
    """A macro-step did not quiesce within its iteration budget (busy-yielding task)."""


class VLoop(asyncio.SelectorEventLoop):
    def __init__(self, start=1_000_000.0):
        super().__init__(selector=_FakeSelector())
        # the clock is kept in integer microseconds so that repeated tick arithmetic cannot drift;
        # timers within 1 us of "now" count as due (asyncio's own rule uses _clock_resolution)
        self._us = int(round(start * 1e6))
        self._clock_resolution = 1e-6
        self.errors = []
        self.set_exception_handler(self._on_err)

    def _on_err(self, loop, ctx):
        self.errors.append(ctx)

    def time(self):
        return self._us / 1e6

    @property
    def _vt(self):
        return self._us / 1e6

    @_vt.setter
    def _vt(self, t):
        self._us = int(round(t * 1e6))

    def wall(self):
        """value for time.time(): nudged by half a microsecond so int(time.time()*1000) is exact"""
        return (self._us + 0.5) / 1e6

    # -- stepping primitives (the loop is never "running forever"; we drive _run_once)
    def _has_ready(self):
        return bool(self._ready)

    def _next_timer(self):
        while self._scheduled and self._scheduled[0]._cancelled:
            h = heapq.heappop(self._scheduled)
            h._scheduled = False
            self._timer_cancelled_count = max(0, self._timer_cancelled_count - 1)
        return self._scheduled[0]._when if self._scheduled else None

    def settle(self, budget=20000, timers_now=True):
        """Run until nothing is ready at the current instant. If timers_now, timers due at
        (or before) the current instant fire too; otherwise only the ready queue drains."""
        n = 0
        while True:
            if not self._ready:
                nt = self._next_timer()
                if not (timers_now and nt is not None and nt <= self._vt + 1e-6):
                    return n
            if not timers_now:
                # run only the ready queue: hide the timers due now
                self._run_ready_only()
            else:
                self._step()
            n += 1
            if n > budget:
                raise SpinError('macro-step did not quiesce in %d iterations' % budget)

    def _step(self):
        # one iteration of the loop without blocking; BaseEventLoop._run_once computes a
        # timeout from the scheduled timers; our selector returns at once and does not move time.
        self._thread_id_guard()
        self._run_once()

    def _run_ready_only(self):
        saved = self._scheduled
        self._scheduled = []
        try:
            self._thread_id_guard()
            self._run_once()
        finally:
            # timers scheduled during the iteration were pushed on the temporary heap
            for h in self._scheduled:
                heapq.heappush(saved, h)
            self._scheduled = saved

    def _thread_id_guard(self):
        pass

    def advance_to(self, t, budget=20000):
        """Move virtual time forward to t (seconds), firing timers in order, settling after each."""
        self.settle(budget)
        while True:
            nt = self._next_timer()
            if nt is None or nt > t + 1e-6:
                break
            if nt > self._vt:
                self._vt = nt
            self.settle(budget)
        if t > self._vt:
            self._vt = t
        self.settle(budget)

    def set_time(self, t):
        """Move the clock to t *without* firing the timers that become due (they fire on the
        next settle(timers_now=True)); used to order a stimulus before same-instant timers."""
        if t > self._vt:
            self._vt = t


class Session:
    """Context manager: installs a VLoop as the running loop so that library code calling
    asyncio.get_running_loop()/create_task works while we drive the loop step by step."""

    def __init__(self, start=1_000_000.0):
        self.loop = VLoop(start)
        self._real_time = None

    def __enter__(self):
        loop = self.loop
        asyncio.set_event_loop(loop)
        self._real_time = _time.time
        _time.time = loop.wall
        # mark loop as running for get_running_loop()
        loop._check_closed()
        loop._thread_id = __import__('threading').get_ident()
        self._old_running = asyncio.events._get_running_loop()
        asyncio.events._set_running_loop(loop)
        return self

    def __exit__(self, *a):
        loop = self.loop
        try:
            # cancel whatever is left so that no 'Task was destroyed' noise escapes
            for t in asyncio.all_tasks(loop):
                t.cancel()
            try:
                loop.settle(5000)
            except Exception:
                pass
        finally:
            asyncio.events._set_running_loop(self._old_running)
            loop._thread_id = None
            _time.time = self._real_time
            loop.close()
            asyncio.set_event_loop(None)

    # convenience
    def ms(self):
        return int(round(self.loop._vt * 1000))

    def spawn(self, coro):
        return self.loop.create_task(coro)

    def call(self, coro, budget=20000):
        """Run coroutine to completion at the current instant (must not need time to pass)."""
        t = self.loop.create_task(coro)
        self.loop.settle(budget)
        if not t.done():
            raise RuntimeError('coroutine did not finish within the current instant')
        return t.result()


def make_face():
    from ndn.transport.face import Face
    import asyncio as aio

    class VFace(Face):
        def __init__(self):
            super().__init__()
            self.out = []
            self.held = []
            self.stop = None
            self.local = True

        async def open(self):
            self.running = True
            self.stop = aio.get_running_loop().create_future()

        def shutdown(self):
            self.running = False
            if self.stop is not None and not self.stop.done():
                self.stop.set_result(None)

        def send(self, data):
            self.out.append(bytes(data))
            # a transport may keep the object it is handed until the socket is writable (asyncio's stream transports queue
            # references since Python 3.12): what was handed over must not change afterwards
            if isinstance(data, (bytearray, memoryview)):
                self.held.append((data, self.out[-1]))
                del self.held[:-48]

        def overwritten(self):
            """number of buffers handed to send() whose content changed afterwards"""
            n = 0
            for ref, cp in self.held:
                try:
                    if bytes(ref) != cp:
                        n += 1
                except ValueError:      # a released memoryview
                    n += 1
            return n

        async def run(self):
            await self.stop

        async def isLocalFace(self):
            return self.local

    return VFace()
