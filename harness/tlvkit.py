"""Shared kit of C07 / C08: the bridge between the abstract values of spec/TlvModel.tla and
python-ndn objects / wires.

Abstract JSON forms (identical to the TLA+ records, see TlvModel.tla):
  number    [limb, ...] little-endian 16-bit limbs            limbs(n) / unlimbs(l)
  runs      [{"v": byte-or-codepoint, "r": count}, ...]       runs_of(seq) / bytes_of_runs / text_of_runs
  element   {"t","leaf","fits","n","runs","kids"}             leaf() / node()
  descr     {"name","t","kind","fixed","ic","sub","elem"}     schema = [descr, ...]
  value     {"k": "none"|"uint"|"bool"|"bytes"|"text"|"name"|"model"|"list"|"map", ...}
Functions
  build_decl(decl) / build_schema_class(schema)   python classes through the real TlvModelMeta
  introspect(cls)                                  schema descriptor of a shipped model class
  to_python(schema, cls, mv) / to_abstract(schema, inst)     model value <-> instance
  mut / mutate_abstract / mutate_instance          in-place changes of a live instance (TlvModelLife.tla)
  project(buf, schema)        strict projection wire -> abstract tree (raises strict_tlv.TlvError)
  project_raw(buf, schema)    lenient projection with `fits` flags (never raises)
  concrete(buf, schema) / apply_edit / strict_tlv.write_tlv   edits at the byte level
  wire_of(elems)              abstract tree (byte runs only) -> bytes, honouring fits = false
  tlc_eval / judge            TLC runs for vector emission and batch judging
"""
import json, os, subprocess, tempfile, shutil, time
from concurrent.futures import ThreadPoolExecutor

from harness import strict_tlv as stl
from harness import tlc

# ------------------------------------------------------------------ numbers, runs


def limbs(n):
    out = []
    while n:
        out.append(n & 0xFFFF)
        n >>= 16
    return out


def unlimbs(l):
    return sum(x << (16 * i) for i, x in enumerate(l))


def runs_of(seq):
    out = []
    for x in seq:
        if out and out[-1]['v'] == x:
            out[-1]['r'] += 1
        else:
            out.append({'v': x, 'r': 1})
    return out


def runs_of_bytes(b):
    b = bytes(b)
    # fast path for long constant strings
    if len(b) > 64 and b.count(b[:1]) == len(b):
        return [{'v': b[0], 'r': len(b)}]
    return runs_of(b)


def runs_of_text(s):
    if len(s) > 64 and s.count(s[0]) == len(s):
        return [{'v': ord(s[0]), 'r': len(s)}]
    return runs_of(ord(ch) for ch in s)


def bytes_of_runs(runs):
    return b''.join(bytes([r['v']]) * r['r'] for r in runs)


def text_of_runs(runs):
    return ''.join(chr(r['v']) * r['r'] for r in runs)


def leaf(t, n, runs, fits=True):
    return {'t': limbs(t), 'leaf': True, 'fits': fits, 'n': n, 'runs': runs, 'kids': []}


def node(t, kids, fits=True):
    return {'t': limbs(t), 'leaf': False, 'fits': fits, 'n': 0, 'runs': [], 'kids': kids}


NONE = {'k': 'none'}

# ------------------------------------------------------------------ descriptors


def descr(name, t, kind, fixed=0, ic=False, sub=(), elem=()):
    return {'name': name, 't': limbs(t), 'kind': kind, 'fixed': fixed, 'ic': ic, 'sub': list(sub), 'elem': list(elem)}


def level_table(schema):
    """type number -> descriptor deciding how an element of this level is read (first field wins)."""
    tab = {}
    for d in schema:
        if d['kind'] == 'repeated':
            tab.setdefault(unlimbs(d['t']), d['elem'][0])
        elif d['kind'] == 'map':
            tab.setdefault(unlimbs(d['elem'][0]['t']), d['elem'][0])
            tab.setdefault(unlimbs(d['elem'][1]['t']), d['elem'][1])
        else:
            tab.setdefault(unlimbs(d['t']), d)
    return tab


def containers_of(schema):
    """container table for strict_tlv.read_tlv: {t: table-of-children | None}"""
    out = {}
    for t, d in level_table(schema).items():
        out[t] = containers_of(d['sub']) if d['kind'] == 'model' else {} if d['kind'] == 'name' else None
    return out


# ------------------------------------------------------------------ classes through the real metaclass

_CLS_CACHE = {}


def _enc():
    from ndn.encoding import tlv_model
    return tlv_model


def make_field(d):
    tm = _enc()
    t = unlimbs(d['t'])
    k = d['kind']
    if k == 'uint':
        return tm.UintField(t, fixed_len=d['fixed'] or None)
    if k == 'bool':
        return tm.BoolField(t)
    if k == 'bytes':
        return tm.BytesField(t)
    if k == 'text':
        return tm.BytesField(t, is_string=True)
    if k == 'name':
        return tm.NameField() if t == 7 else tm.NameField(type_number=t)
    if k == 'model':
        return tm.ModelField(t, build_schema_class(d['sub']), ignore_critical=d['ic'])
    if k == 'repeated':
        return tm.RepeatedField(make_field(d['elem'][0]))
    if k == 'map':
        return tm.MapField(make_field(d['elem'][0]), make_field(d['elem'][1]))
    raise ValueError(k)


def build_schema_class(schema, name=None):
    """plain class for a flattened schema (used for nested models)"""
    tm = _enc()
    key = json.dumps(schema, sort_keys=True)
    if key not in _CLS_CACHE:
        attrs = {d['name']: make_field(d) for d in schema}
        _CLS_CACHE[key] = type(tm.TlvModel)(name or 'M%d' % len(_CLS_CACHE), (tm.TlvModel,), attrs)
    return _CLS_CACHE[key]


def build_decl(decl, cache=None):
    """class declaration [cname, entries] with IncludeBase entries -> class (bases shared by name)."""
    tm = _enc()
    cache = {} if cache is None else cache
    if decl['cname'] in cache:
        return cache[decl['cname']]
    bases, attrs = [], {}
    for e in decl['entries']:
        if e['k'] == 'field':
            attrs[e['d']['name']] = make_field(e['d'])
        else:
            b = build_decl(e['base'], cache)
            if b not in bases:
                bases.append(b)
            attrs['_include_%s' % b.__name__] = tm.IncludeBase(b)
    cls = type(tm.TlvModel)(decl['cname'], tuple(bases) or (tm.TlvModel,), attrs)
    cache[decl['cname']] = cls
    return cls


def introspect(cls, _seen=()):
    """schema descriptor of a model class from _encoded_fields (declared order is the reference).
    Returns None if the class uses a field kind outside tlv_model's public kinds."""
    tm = _enc()

    def one(f, name):
        if isinstance(f, tm.UintField):
            return descr(name, f.type_num, 'uint', fixed=f.fixed_len or 0)
        if isinstance(f, tm.BoolField):
            return descr(name, f.type_num, 'bool')
        if isinstance(f, tm.BytesField):
            return descr(name, f.type_num, 'text' if f.is_string else 'bytes')
        if isinstance(f, tm.NameField) or type(f).__name__ == 'InterestNameField':
            return descr(name, f.type_num, 'name')
        if type(f).__name__ == 'SignatureValueField':
            return descr(name, f.type_num, 'bytes')
        if isinstance(f, tm.ModelField):
            if f.model_type in _seen:
                return None
            sub = introspect(f.model_type, _seen + (cls,))
            return None if sub is None else descr(name, f.type_num, 'model', ic=bool(f.ignore_critical), sub=sub)
        if isinstance(f, tm.RepeatedField):
            e = one(f.element_type, name)
            return None if e is None else descr(name, f.type_num, 'repeated', elem=[e])
        if isinstance(f, tm.MapField):
            k, v = one(f.key_type, name + '#k'), one(f.value_type, name + '#v')
            return None if k is None or v is None else descr(name, f.type_num, 'map', elem=[k, v])
        return None
    out = []
    for f in cls._encoded_fields:
        if isinstance(f, tm.ProcedureArgument):
            continue
        d = one(f, f.name)
        if d is None:
            return None
        out.append(d)
    return out


def model_fields(cls):
    tm = _enc()
    return [f for f in cls._encoded_fields if not isinstance(f, tm.ProcedureArgument)]


# ------------------------------------------------------------------ values


def comp_bytes(c):
    return stl.write_tlv([(unlimbs(c['t']), bytes_of_runs(c['runs']))])


def field_to_python(d, fv, fobj):
    k = fv['k']
    if d['kind'] == 'repeated':
        return [field_to_python(d['elem'][0], x, fobj.element_type) for x in fv['items']]
    if d['kind'] == 'map':
        return {field_to_python(d['elem'][0], it['key'], fobj.key_type):
                field_to_python(d['elem'][1], it['val'], fobj.value_type) for it in fv['items']}
    if k == 'none':
        return None
    if k == 'uint':
        return unlimbs(fv['n'])
    if k == 'bool':
        return True
    if k == 'bytes':
        return bytes_of_runs(fv['runs'])
    if k == 'text':
        return text_of_runs(fv['runs'])
    if k == 'name':
        return [comp_bytes(c) for c in fv['comps']]
    if k == 'model':
        return to_python(d['sub'], fobj.model_type, fv['v'])
    raise ValueError(k)


def to_python(schema, cls, mv):
    inst = cls()
    for d, fv, f in zip(schema, mv, model_fields(cls)):
        val = field_to_python(d, fv, f)
        if d['kind'] in ('repeated', 'map') or val is not None:
            setattr(inst, f.name, val)
        elif f.default is None:
            f.__set__(inst, None)         # also clears values an __init__ may have put (MetaInfo.content_type)
        # else: leave the declared default (BoolField(default=False)); callers keep such fields absent/False
    return inst


def comp_abstract(c):
    """name component (bytes-like TLV) -> {"t","runs"}; a component that is not exactly one
    well-formed element is reported with t = [] and its raw bytes (cannot equal any spec value
    produced from a well-formed name)."""
    c = bytes(c)
    try:
        (t, v), = stl.read_tlv(c, shortest=False)
        return {'t': limbs(t), 'runs': runs_of_bytes(v)}
    except (stl.TlvError, ValueError):
        return {'t': [], 'runs': runs_of_bytes(c)}


def field_to_abstract(d, val, fobj):
    kind = d['kind']
    if kind == 'repeated':
        return {'k': 'list', 'items': [field_to_abstract(d['elem'][0], x, fobj.element_type) for x in (val or [])]}
    if kind == 'map':
        return {'k': 'map', 'items': [{'key': field_to_abstract(d['elem'][0], k, fobj.key_type),
                                       'val': field_to_abstract(d['elem'][1], v, fobj.value_type)}
                                      for k, v in (val or {}).items()]}
    if val is None:
        return NONE
    if kind == 'uint':
        return {'k': 'uint', 'n': limbs(int(val))}
    if kind == 'bool':
        return {'k': 'bool'} if val else NONE
    if kind == 'bytes':
        return {'k': 'bytes', 'runs': runs_of_bytes(val)}
    if kind == 'text':
        if isinstance(val, str):
            return {'k': 'text', 'runs': runs_of_text(val)}
        return {'k': 'bytes', 'runs': runs_of_bytes(val)}
    if kind == 'name':
        if isinstance(val, str):
            return {'k': 'text', 'runs': runs_of_text(val)}      # e.g. the default "/" of a missing name
        return {'k': 'name', 'comps': [comp_abstract(c) for c in val]}
    if kind == 'model':
        return {'k': 'model', 'v': to_abstract(d['sub'], val)}
    raise ValueError(kind)


def to_abstract(schema, inst):
    """fields are looked up by NAME (the descriptors carry the attribute names of the library classes), so a class
    whose declaration order differs from the schema is projected faithfully and shows up as different values,
    not as a driver error; a field the class does not have is reported as {"k": "missing-field"}."""
    by_name = {f.name: f for f in model_fields(type(inst))}
    out = []
    for d in schema:
        f = by_name.get(d['name'])
        out.append({'k': 'missing-field'} if f is None else field_to_abstract(d, f.get_value(inst), f))
    return out


# ------------------------------------------------------------------ life of one instance (TlvModelLife.tla)


def mut(path, i, op, j=0, key=None, fv=None):
    """a change of TlvModelLife: field i (1-based) of the model reached by path = [[field, item], ...]"""
    return {'path': [list(p) for p in path], 'i': i, 'op': op, 'j': j, 'key': key or NONE, 'fv': fv or NONE}


def _sub_schema(d):
    return d['sub'] if d['kind'] == 'model' else d['elem'][0]['sub'] if d['kind'] == 'repeated' else d['elem'][1]['sub']


def mutate_abstract(schema, mv, m):
    """Mirror of TlvModelLife.Mutate on the JSON forms. Used by the GENERATOR only (it has to know the current
    value to propose the next change); the value the implementation is judged against is computed by TLC."""
    mv = json.loads(json.dumps(mv))
    s, cur = schema, mv
    for i, j in m['path']:
        d, fv = s[i - 1], cur[i - 1]
        cur = fv['v'] if d['kind'] == 'model' else fv['items'][j - 1]['v'] if d['kind'] == 'repeated' else fv['items'][j - 1]['val']['v']
        s = _sub_schema(d)
    i, op, new = m['i'] - 1, m['op'], json.loads(json.dumps(m['fv']))
    fv = cur[i]
    if op == 'set':
        cur[i] = new
    elif op == 'append':
        fv['items'].append(new)
    elif op == 'setitem':
        fv['items'][m['j'] - 1] = new
    elif op == 'pop':
        fv['items'].pop()
    elif op == 'clear':
        fv['items'] = []
    elif op == 'put':
        for it in fv['items']:
            if it['key'] == m['key']:
                it['val'] = new
                break
        else:
            fv['items'].append({'key': m['key'], 'val': new})
    elif op == 'del':
        del fv['items'][m['j'] - 1]
    else:
        raise ValueError(op)
    return mv


def mutate_instance(schema, inst, m):
    """The same change done to the live python-ndn object the way application code does it: attribute
    assignment for "set", list / dict methods on the object the attribute holds for the in-place operations."""
    s, obj = schema, inst
    for i, j in m['path']:
        d = s[i - 1]
        val = {f.name: f for f in model_fields(type(obj))}[d['name']].get_value(obj)
        obj = val if d['kind'] == 'model' else val[j - 1] if d['kind'] == 'repeated' else list(val.values())[j - 1]
        s = _sub_schema(d)
    d = s[m['i'] - 1]
    f = {f.name: f for f in model_fields(type(obj))}[d['name']]
    op = m['op']
    if op == 'set':
        setattr(obj, f.name, field_to_python(d, m['fv'], f))
        return
    box = f.get_value(obj)
    if op == 'append':
        box.append(field_to_python(d['elem'][0], m['fv'], f.element_type))
    elif op == 'setitem':
        box[m['j'] - 1] = field_to_python(d['elem'][0], m['fv'], f.element_type)
    elif op == 'pop':
        box.pop()
    elif op == 'clear':
        box.clear()
    elif op == 'put':
        box[field_to_python(d['elem'][0], m['key'], f.key_type)] = field_to_python(d['elem'][1], m['fv'], f.value_type)
    elif op == 'del':
        del box[list(box)[m['j'] - 1]]
    else:
        raise ValueError(op)


# ------------------------------------------------------------------ projections wire -> abstract tree


def _elem_strict(t, val, d):
    kind = d['kind'] if d else 'bytes'
    if kind == 'model':
        return node(t, project(val, d['sub']))
    if kind == 'name':
        return node(t, [leaf(ct, len(cv), runs_of_bytes(cv)) for ct, cv in stl.read_tlv(val)])
    if kind == 'text':
        try:
            return leaf(t, len(val), runs_of_text(val.decode('utf-8')))
        except UnicodeDecodeError:
            pass
    return leaf(t, len(val), runs_of_bytes(val))


def project(buf, schema):
    """strict: shortest numbers, every element inside its parent; raises strict_tlv.TlvError"""
    buf = bytes(buf)
    tab = level_table(schema)
    return [_elem_strict(t, buf[ov:ev], tab.get(t)) for t, _, ov, ev in stl.read_elements(buf)]


def cut(raw):
    """TlvModel.Cut: the bytes left at the end of a level that do not hold a complete Type and Length"""
    return {'t': [], 'leaf': False, 'fits': False, 'n': len(raw), 'runs': runs_of_bytes(raw), 'kids': []}


def project_raw(buf, schema, start=0, end=None, stats=None):
    """lenient: numbers need not be shortest; an element whose header is cut or whose value
    overruns the level is reported with fits = false (and ends the level)."""
    end = len(buf) if end is None else end
    tab = level_table(schema)
    out, off = [], start
    while off < end:
        try:
            t, s1 = stl.parse_var(buf, off, end, shortest=False)
            ln, s2 = stl.parse_var(buf, off + s1, end, shortest=False)
        except stl.TlvError:
            out.append(cut(bytes(buf[off:end])))
            if stats is not None:
                stats['trunc'] = stats.get('trunc', 0) + 1
            break
        ov = off + s1 + s2
        fits = ov + ln <= end
        ev = ov + ln if fits else end            # an overrunning element is shown with the bytes that are there
        d = tab.get(t)
        kind = d['kind'] if d else 'bytes'
        if kind == 'model':
            out.append(node(t, project_raw(buf, d['sub'], ov, ev, stats), fits))
        elif kind == 'name':
            out.append(node(t, project_raw(buf, [], ov, ev, stats), fits))
        else:
            out.append(leaf(t, ev - ov, runs_of_bytes(buf[ov:ev]), fits))
        if not fits:
            if stats is not None:
                stats['overrun'] = stats.get('overrun', 0) + 1
            break
        off = ev
    return out


def wire_of(elems, slack=1):
    """abstract tree whose leaves are byte runs -> bytes. fits = false: the element announces
    `slack` bytes more than it has (so it overruns whatever encloses it); a Cut element
    (leaf = false with runs) is written as its raw bytes."""
    out = bytearray()
    for e in elems:
        if not e['leaf'] and e['runs']:          # cut header: its raw bytes
            out += bytes_of_runs(e['runs'])
            continue
        body = bytes_of_runs(e['runs']) if e['leaf'] else wire_of(e['kids'], slack)
        ln = len(body) + (0 if e['fits'] else slack)
        out += stl.write_var(unlimbs(e['t'])) + stl.write_var(ln) + body
    return bytes(out)


# ------------------------------------------------------------------ edits at the byte level


def concrete(buf, schema):
    return stl.read_tlv(bytes(buf), containers_of(schema))


def apply_edit(tree, e, path=None):
    """tree: strict_tlv tree; e: edit record of TlvModelFamily (path/op/pos/src/elem)."""
    path = list(e['path']) if path is None else path
    if path:
        p = path[0] - 1
        t, kids = tree[p]
        return tree[:p] + [(t, apply_edit(kids, e, path[1:]))] + tree[p + 1:]
    pos = e['pos']
    if e['op'] == 'ins':
        el = e['elem']
        return tree[:pos] + [(unlimbs(el['t']), bytes_of_runs(el['runs']))] + tree[pos:]
    if e['op'] == 'dup':
        return tree[:pos] + [tree[e['src'] - 1]] + tree[pos:]
    if e['op'] == 'swap':
        t2 = list(tree)
        t2[pos - 1], t2[pos] = t2[pos], t2[pos - 1]
        return t2
    raise ValueError(e['op'])


# ------------------------------------------------------------------ TLC helpers

DOC_ERRORS = ('DecodeError', 'ValueError', 'IndexError', 'error', 'TypeError', 'UnicodeDecodeError')


def exc_class(e):
    """documented decoding error classes (DESIGN 9, C07): DecodeError, ValueError (incl. its subclass
    UnicodeDecodeError), IndexError, struct.error, TypeError"""
    import struct
    from ndn.encoding.tlv_model import DecodeError
    if isinstance(e, (DecodeError, ValueError, IndexError, struct.error, TypeError)):
        return 'documented'
    return type(e).__name__


def scratch(name):
    """build/ path private to this process (two checks may run at the same time)"""
    base, ext = os.path.splitext(name)
    return os.path.join(tlc.BUILD, '%s.%d%s' % (base, os.getpid(), ext))


def cleanup():
    import glob
    for fn in glob.glob(os.path.join(tlc.BUILD, '*.%d.*' % os.getpid())) + glob.glob(os.path.join(tlc.BUILD, '*.%d' % os.getpid())):
        try:
            os.remove(fn)
        except OSError:
            pass


def write_cfg(name, constants=None, **kw):
    p = scratch(name)
    tlc.write_cfg(p + '.tmp', constants=constants, **kw)
    os.replace(p + '.tmp', p)
    return p


def tlc_eval(module, cfg, env, timeout=1800, heap='4g'):
    """Run a module whose work is done by ASSUMEs (JsonSerialize / PrintT); returns stdout."""
    os.makedirs(tlc.BUILD, exist_ok=True)
    meta = tempfile.mkdtemp(prefix='md-ev-%s-' % module, dir=tlc.BUILD)
    cmd = ['java', '-XX:+UseSerialGC', '-Xmx%s' % heap, '-Xss64m', '-cp', tlc.JARS, 'tlc2.TLC', '-workers', '1',
           '-config', cfg, '-metadir', meta, '-noGenerateSpecTE', module]
    e = dict(os.environ)
    e.update({k: str(v) for k, v in env.items()})
    t0 = time.time()
    try:
        p = subprocess.run(cmd, cwd=tlc.SPEC, env=e, stdout=subprocess.PIPE, stderr=subprocess.STDOUT,
                           timeout=timeout, text=True, errors='replace')
    except subprocess.TimeoutExpired:
        raise tlc.MachineryError('TLC timeout on %s' % module)
    finally:
        shutil.rmtree(meta, ignore_errors=True)
    if 'Model checking completed. No error has been found' not in p.stdout:
        raise tlc.MachineryError('TLC evaluation failed on %s:\n%s' % (module, p.stdout[-5000:]))
    r = tlc.TlcResult()
    r.out, r.wall, r.ok = p.stdout, time.time() - t0, True
    return r


def check_witnesses(module, witnesses, constants, raw='', env=None, par=3):
    """each witness W_x == ~(situation) must be VIOLATED (the situation is reachable); runs in parallel"""
    def one(w):
        cfg = write_cfg('%s_%s.cfg' % (module, w), constants=constants, invariants=[w], raw=raw)
        e = dict(env or {})
        e = {k: (scratch(v + '.' + w) if k.endswith('_TAB') else v) for k, v in e.items()}
        r = tlc.run(module, cfg, workers=1, heavy=False, env=e, tag=w)
        return w, r.violated
    with ThreadPoolExecutor(par) as ex:
        for w, viol in ex.map(one, witnesses):
            if viol != w:
                raise tlc.MachineryError('witness %s of %s is not reachable (vacuous invariant)' % (w, module))


def judge(module, cfg, records, name, nproc=4, env=None, timeout=3000):
    """Batch judging: records (dicts with an 'id') are sharded into NDJSON files, one TLC process
    per shard evaluates the reference on each record and prints
        <<"V", id, <<tag, ...>>>>   for a record with failed checks
        <<"JUDGED", n>>             at the end.
    Returns ({id: [tags]}, total wall). Every record must be judged (else MachineryError)."""
    from harness import tlaval
    if not records:
        return {}, 0.0
    nproc = max(1, min(nproc, (len(records) + 199) // 200))
    shards = [records[i::nproc] for i in range(nproc)]
    files = []
    for i, sh in enumerate(shards):
        fn = scratch('%s-%d.ndjson' % (name, i))
        with open(fn, 'w') as f:
            for r in sh:
                f.write(json.dumps(r, separators=(',', ':')) + '\n')
        files.append(fn)
    t0 = time.time()

    def one(fn):
        e = {'JUDGE_IN': fn}
        e.update(env or {})
        return tlc_eval(module, cfg, e, timeout=timeout).out
    with ThreadPoolExecutor(nproc) as ex:
        outs = list(ex.map(one, files))
    verdicts, judged = {}, 0
    for out in outs:
        for line in out.splitlines():
            line = line.strip()
            if line.startswith('<<"V",'):
                v = tlaval.parse(line)
                verdicts[v[1]] = list(v[2])
            elif line.startswith('<<"JUDGED",'):
                judged += tlaval.parse(line)[1]
    if judged != len(records):
        raise tlc.MachineryError('%s judged %d of %d records' % (module, judged, len(records)))
    return verdicts, time.time() - t0
