"""X03 part (b): keychain register (ndn/app_support/keychain_register.py) against spec/KcRegister.tla.

A  TLC exhaustive on KcRegister (2 identities - "b" nested under "a" -, 1 key each, 2 certificates per key; every
   question shape) with the design-level statements as invariants, action coverage and witnesses.
B  transition cover of that state graph replayed into a real KeychainSqlite3 (scratch directory) + appv2 NDNApp
   on the virtual loop: after every Ask the Data packets on the face, mapped back to certificate slots, must be
   allowed by the state's `reply`.
C  random longer schedules over a larger universe (3 identities, 2 keys each, 3 certificates per key) recorded
   and validated by TLC (KcRegisterTrace: the same actions).
"""
import json, os, shutil, tempfile, time
from datetime import datetime

from harness import tlc, graph, judge, kckit
from harness.appkit import Session, new_app, deliver

ID_NAMES = {'a': '/x03/a', 'b': '/x03/a/b', 'c': '/x03c'}
INVS = ['TypeOK', 'ServesOnlySatisfying', 'DocumentedShapes', 'ExactIsUnique', 'NothingBeforeAttach', 'DevBounded']
WITNESSES = ['W_ServeKey', 'W_ServeCert', 'W_LateId', 'W_Deviation', 'W_NoCerts']
ACTIONS = ['NewIdentity', 'NewKey', 'DelKey', 'ImportCert', 'DelCert', 'Attach', 'Ask', 'Clear']
CLASSES = ('id', 'KEY', 'key', 'issuer', 'cert', 'certx')


class KcRun:
    """One keychain + one application."""

    def __init__(self):
        from ndn.security import KeychainSqlite3, TpmFile
        self.root = tempfile.mkdtemp(prefix='verif-x03-kc-', dir=kckit.scratch_root())
        pib, tpm = os.path.join(self.root, 'pib.db'), os.path.join(self.root, 'tpm')
        KeychainSqlite3.initialize(pib, 'tpm-file', tpm)
        self.kc = KeychainSqlite3(pib, TpmFile(tpm))
        self.sess = Session()
        self.sess.__enter__()
        self.app, self.face = new_app('v2')
        self.sess.loop.settle()
        self.certs = {}          # (i, k, c) -> (name components, wire) of certificates stored now
        self.names = {}          # (i, k, c) -> last known certificate name
        self.keybits = {}
        self.problems = []

    def close(self):
        try:
            self.kc.shutdown()
        except Exception:  # noqa
            pass
        self.sess.__exit__(None, None, None)
        shutil.rmtree(self.root, ignore_errors=True)

    # -- names
    def idname(self, i):
        from ndn.encoding import Name
        return Name.normalize(ID_NAMES[i])

    def keyname(self, i, k):
        from ndn.encoding import Component
        from ndn.app_support.security_v2 import KEY_COMPONENT
        return self.idname(i) + [KEY_COMPONENT, Component.from_str('k9' if k == 'ghost' else k)]

    def certname(self, i, k, c):
        from ndn.encoding import Component
        from ndn.utils import timestamp
        n = self.names.get((i, k, c))
        if n is None:
            n = self.keyname(i, k) + [Component.from_str(c), Component.from_version(timestamp())]
        return n

    # -- actions
    def apply(self, act, args):
        from ndn.encoding import Name, Component
        from ndn.app_support.security_v2 import derive_cert
        from ndn.app_support.keychain_register import attach_keychain_register
        kc = self.kc
        if act == 'NewIdentity':
            kc.new_identity(self.idname(args[0]))
        elif act == 'NewKey':
            i, k = args
            key = kc.new_key(self.idname(i), 'ec', key_id=Component.from_str(k))
            names = list(key)
            if len(names) != 1:
                raise tlc.MachineryError('new_key: %d certificates' % len(names))
            cert = key[names[0]]
            self.keybits[i, k] = bytes(key.key_bits)
            self.certs[i, k, 'self'] = (names[0], bytes(cert.data))
            self.names[i, k, 'self'] = names[0]
        elif act == 'DelKey':
            i, k = args
            kc.del_key(self.keyname(i, k))
            for s in [s for s in self.certs if s[:2] == (i, k)]:
                del self.certs[s]
        elif act == 'ImportCert':
            i, k, c = args
            from ndn.security.signer import DigestSha256Signer
            signer = DigestSha256Signer()        # (who issued it does not matter to the register)
            name, wire = derive_cert(self.keyname(i, k), Component.from_str(c), self.keybits[i, k], signer,
                                     datetime(2024, 1, 1), 20 * 365 * 86400)
            kc.import_cert(self.keyname(i, k), name, wire)
            self.certs[i, k, c] = (name, bytes(wire))
            self.names[i, k, c] = name
        elif act == 'DelCert':
            i, k, c = args
            kc.del_cert(self.certs[i, k, c][0])
            del self.certs[i, k, c]
        elif act == 'Attach':
            attach_keychain_register(kc, self.app)
            self.sess.loop.settle()
        elif act == 'Ask':
            return self.ask(args[0])
        elif act == 'Clear':
            return None
        else:
            raise tlc.MachineryError('unknown action %s' % act)
        return None

    def ask(self, x):
        from ndn.encoding import make_interest, InterestParam, Component
        i, cls, k, c = x['i'], x['cls'], x['k'], x['c']
        name = list(self.idname(i))
        if cls != 'id':
            name = self.keyname(i, k)[:len(name) + 1]
        if cls in ('key', 'issuer', 'cert', 'certx'):
            name = self.keyname(i, k)
        if cls in ('issuer', 'cert', 'certx'):
            cn = self.certname(i, k, c)
            name = name + list(cn[len(name):len(name) + (1 if cls == 'issuer' else 2)])
        if cls == 'certx':
            name = name + [Component.from_str('x')]
        wire = make_interest(name, InterestParam(can_be_prefix=bool(x['cbp']), nonce=0x01020304, lifetime=4000),
                             b'p' if x['par'] else None)
        del self.face.out[:]
        n_err = len(self.sess.loop.errors)
        exc = deliver(self.sess, self.face, bytes(wire))
        obs = []
        by_wire = {w: s for s, (_, w) in self.certs.items()}
        for pkt in self.face.out:
            s = by_wire.get(bytes(pkt))
            obs.append(list(s) if s else ['x', 'x', 'x'])
        if exc is not None:
            self.problems.append('receive callback raised %s: %s' % (type(exc).__name__, exc))
        for e in self.sess.loop.errors[n_err:]:
            self.problems.append('loop error: %s %r' % (e.get('message'), e.get('exception')))
        return obs


def allowed(reply, obs):
    rs = {tuple(r) for r in reply}
    if not rs:
        return len(obs) == 0
    return len(obs) == 1 and tuple(obs[0]) in rs


def q_class(x):
    return '%s%s%s' % (x['cls'], '-cbp' if x['cbp'] else '', '-params' if x['par'] else '')


def signature(x, reply, obs):
    exp = 'none' if not reply else 'cert'
    got = 'none' if not obs else 'foreign-data' if obs[0][0] == 'x' else 'cert' if len(obs) == 1 else 'several'
    if exp == got == 'cert':
        got = 'other-cert'
    return 'X03/attach_keychain_register/%s/%s->%s' % (q_class(x), exp, got)


def cfg(name, invs=INVS, witnesses=True):
    p = os.path.join(tlc.BUILD, name + '.cfg')
    tlc.write_cfg(p, constants={'Ids': '{"a", "b"}', 'KeyIds': '{"k1"}', 'CertIds': '{"self", "ca"}'}, invariants=invs,
                  constraints=['MarkW'] if witnesses else [], postcondition='PostW' if witnesses else None)
    return p


def state_of(g, sid):
    st = g.state[sid]
    if isinstance(st, str):
        from harness import tlaval
        st = g.state[sid] = tlaval.parse_state(st)
    return st


def replay_path(g, init, path):
    """-> (asks executed, None | failure dict)"""
    run = KcRun()
    n = 0
    try:
        for step, (act, args, dst) in enumerate(path):
            args = [dict(a) if isinstance(a, dict) else a for a in args]
            try:
                obs = run.apply(act, args)
            except tlc.MachineryError:
                raise
            except Exception as e:  # noqa  - the library failed where the model has a transition
                return n, {'step': step, 'act': act, 'args': args, 'sig': 'X03/attach_keychain_register/%s/raises-%s' % (act, type(e).__name__),
                           'what': '%s%s raised %s: %s' % (act, args, type(e).__name__, e)}
            if act == 'Ask':
                n += 1
                reply = [list(r) for r in state_of(g, dst)['reply']]
                if run.problems:
                    return n, {'step': step, 'act': act, 'args': args, 'sig': 'X03/attach_keychain_register/%s/internal-error' % q_class(args[0]),
                               'what': 'Interest %s: %s' % (json.dumps(args[0]), run.problems)}
                if not allowed(reply, obs):
                    return n, {'step': step, 'act': act, 'args': args, 'sig': signature(args[0], reply, obs),
                               'what': 'Interest %s: the model allows %s, the application sent %s' % (json.dumps(args[0]), sorted(reply), obs)}
        return n, None
    finally:
        run.close()


def jsonable_path(path):
    return [[act, [dict(a) if isinstance(a, dict) else a for a in args]] for act, args, _ in path]


def check(ctx):
    t0 = time.perf_counter()
    # one TLC run serves A (statements as invariants, witnesses through MarkW / PostW, one worker) and B (state graph)
    from harness.facekit import light_graph
    g = light_graph('KcRegister', cfg('x03-kc'), 'x03kcg', parse_states=False)
    r = g.tlc
    ctx.add_tlc('KcRegister 2 identities (nested), 1 key, 2 certificates', r)
    if r.violated == 'postcondition' or 'VACUOUS' in r.out:
        raise tlc.MachineryError('vacuous: a witness of KcRegister is not reachable:\n%s' % r.out[-1200:])
    if r.violated:
        ctx.violation('X03/spec/KcRegister/%s' % r.violated, 'TLC: %s violated in KcRegister' % r.violated, {'kind': 'spec', 'trace': r.errtrace})
        return
    taken = {a for es in g.edges.values() for a, _, _ in es}
    for a in ACTIONS:
        if a not in taken:
            raise tlc.MachineryError('vacuous: KcRegister action %s never taken' % a)
    ctx.note('kcreg A: %d states, %d statements hold, %d witnesses reachable, every action taken (t=%.0fs)' % (
        r.distinct, len(INVS), len(WITNESSES), time.perf_counter() - t0))
    if 'B' in ctx.stages:
        # quick: a seeded part of the transition cover; thorough: every transition
        paths = graph.edge_cover_paths(g, max_len=ctx.pick(120, 200), rng=ctx.rng, max_paths=ctx.pick(110, None))
        asks = 0
        for init, path in paths:
            n, bad = replay_path(g, init, path)
            asks += n
            ctx.traces += 1
            if len(path) >= 6 and any(a == 'Ask' and state_of(g, d)['reply'] for a, _, d in path):
                ctx.nt(['kcreg-path', jsonable_path(path)])
            if bad:
                ctx.violation(bad['sig'], 'kcreg B: %s (step %d of a transition-cover path)' % (bad['what'], bad['step']),
                              {'kind': 'kcreg', 'path': jsonable_path(path)[:bad['step'] + 1]})
        ctx.evaluations += asks
        ctx.extra['kcreg_B_paths'] = len(paths)
        ctx.extra['kcreg_B_interests'] = asks
        ctx.note('kcreg B: %d states / %d transitions; %d transition-cover paths replayed, %d Interests answered and compared (t=%.0fs)' % (
            len(g.state), g.n_edges, len(paths), asks, time.perf_counter() - t0))
    if 'C' in ctx.stages:
        stage_c(ctx, t0)


# ------------------------------------------------------------------------------------------ random schedules

def rand_question(rng, ids, keys, certs, stored, have_key=()):
    if have_key and rng.random() < 0.2:
        # the key name of an existing key, whether it has certificates (left) or not
        i, k = rng.choice(sorted(have_key))
        return {'i': i, 'cls': 'key', 'k': k, 'c': 'ghost', 'cbp': rng.random() < 0.85, 'par': False}
    if stored and rng.random() < 0.55:
        # about something that is stored: its key name with CanBePrefix / its certificate name without, mostly
        i, k, c = rng.choice(sorted(stored))
        x = rng.random()
        cls, cbp = ('key', True) if x < 0.4 else ('cert', False) if x < 0.8 else (rng.choice(CLASSES), rng.random() < 0.5)
        return {'i': i, 'cls': cls, 'k': k, 'c': c, 'cbp': cbp, 'par': rng.random() < 0.08}
    i = rng.choice(ids)
    cls = rng.choice(('id', 'KEY', 'key', 'key', 'key', 'issuer', 'cert', 'cert', 'cert', 'certx'))
    return {'i': i, 'cls': cls, 'k': rng.choice(keys + keys + ['ghost']), 'c': rng.choice(certs + certs + ['ghost']),
            'cbp': rng.random() < 0.5, 'par': rng.random() < 0.12}


SCENARIOS = (
    (),
    # a key that lost its certificates next to a key that has one
    (('NewIdentity', ['a']), ('NewKey', ['a', 'k1']), ('NewKey', ['a', 'k2']), ('DelCert', ['a', 'k1', 'self']), ('Attach', [])),
    # nested identities, one created only after attaching
    (('NewIdentity', ['a']), ('NewKey', ['a', 'k1']), ('Attach', []), ('NewIdentity', ['b']), ('NewKey', ['b', 'k1']), ('NewKey', ['a', 'k2'])),
    # attached before anything is in the identity
    (('NewIdentity', ['b']), ('NewIdentity', ['c']), ('Attach', []), ('NewKey', ['b', 'k2']), ('ImportCert', ['b', 'k2', 'cb']), ('DelCert', ['b', 'k2', 'self'])),
)


def rand_trace(rng, length):
    ids, keys, certs = ['a', 'b', 'c'], ['k1', 'k2'], ['self', 'ca', 'cb']
    have_id, have_key, have_cert = set(), set(), set()
    attached = False
    run = KcRun()
    ev = []
    script = list(rng.choice(SCENARIOS))
    try:
        while len(ev) < length:
            x = rng.random()
            if x < 0.55 and not script:
                q = rand_question(rng, ids, keys, certs, have_cert, have_key)
                obs = run.apply('Ask', [q])
                ev.append({'a': 'Ask', 'x': q, 'obs': obs, 'problems': list(run.problems)})
                del run.problems[:]
                ev.append({'a': 'Clear'})
                continue
            cand = []
            cand += [('NewIdentity', [i]) for i in ids if i not in have_id]
            cand += [('NewKey', [i, k]) for i in have_id for k in keys if (i, k) not in have_key] * 2
            cand += [('DelKey', [i, k]) for (i, k) in sorted(have_key)]
            cand += [('ImportCert', [i, k, c]) for (i, k) in sorted(have_key) for c in certs[1:] if (i, k, c) not in have_cert] * 2
            cand += [('DelCert', list(s)) for s in sorted(have_cert)] * 2
            if not attached and have_id:
                cand += [('Attach', [])] * 4
            act, args = script.pop(0) if script else rng.choice(cand)
            run.apply(act, args)
            e = {'a': act}
            e.update(dict(zip('ikc', args)))
            ev.append(e)
            if act == 'NewIdentity':
                have_id.add(args[0])
            elif act == 'NewKey':
                have_key.add(tuple(args)); have_cert.add(tuple(args) + ('self',))
            elif act == 'DelKey':
                have_key.discard(tuple(args)); have_cert = {s for s in have_cert if s[:2] != tuple(args)}
            elif act == 'ImportCert':
                have_cert.add(tuple(args))
            elif act == 'DelCert':
                have_cert.discard(tuple(args))
            elif act == 'Attach':
                attached = True
    finally:
        run.close()
    return {'ev': ev}


def stage_c(ctx, t0):
    recs = []
    for _ in range(ctx.pick(40, 400)):
        recs.append(rand_trace(ctx.rng, ctx.rng.randint(30, 90)))
    bad_internal = [(i, e) for i, r in enumerate(recs) for e in r['ev'] if e.get('problems')]
    for i, e in bad_internal:
        ctx.violation('X03/attach_keychain_register/%s/internal-error' % q_class(e['x']), 'kcreg C: Interest %s: %s' % (json.dumps(e['x']), e['problems']),
                      {'kind': 'kcreg', 'trace': recs[i]})
    for r in recs:
        for e in r['ev']:
            e.pop('problems', None)
    rej = judge.validate(ctx, 'KcRegisterTrace', 'KcRegisterTrace.cfg', recs, 'x03-kc-c', parallel=ctx.pick(2, 6))
    nask = sum(1 for r in recs for e in r['ev'] if e['a'] == 'Ask')
    served = sum(1 for r in recs for e in r['ev'] if e['a'] == 'Ask' and e['obs'])
    ctx.traces += len(recs)
    ctx.evaluations += nask
    for r in recs:
        if sum(1 for e in r['ev'] if e['a'] == 'Ask' and e['obs']) >= 2:
            ctx.nt(['kcreg-trace', r['ev']])
    ctx.extra['kcreg_C_traces'] = len(recs)
    ctx.extra['kcreg_C_interests'] = nask
    ctx.sample({'stage': 'kcreg C', 'events': recs[0]['ev'][:12]})
    ctx.note('kcreg C: %d random schedules (%d Interests, %d answered with a certificate) validated by TLC, %d rejected (t=%.0fs)' % (
        len(recs), nask, served, len(rej), time.perf_counter() - t0))
    for i, lno in rej:
        ev = recs[i]['ev']
        e = ev[lno - 1] if 1 <= lno <= len(ev) else {'a': 'end'}
        if e['a'] == 'Ask':
            # the model's reply is not in the record: name the shape and what was observed
            got = 'none' if not e['obs'] else 'foreign-data' if e['obs'][0][0] == 'x' else 'cert' if len(e['obs']) == 1 else 'several'
            sig = 'X03/attach_keychain_register/%s/observed-%s-not-allowed' % (q_class(e['x']), got)
        else:
            sig = 'X03/attach_keychain_register/%s/not-enabled-in-model' % e['a']
        ctx.violation(sig, 'kcreg C: trace rejected by KcRegisterTrace at event %d: %s' % (lno, json.dumps(e)),
                      {'kind': 'kcreg', 'trace': recs[i], 'rejected_at': lno})


def replay(ctx, obj):
    if 'path' in obj:
        run = KcRun()
        try:
            for act, args in obj['path']:
                obs = run.apply(act, args)
                print('%s%s%s' % (act, json.dumps(args), ' -> %s %s' % (obs, run.problems) if act == 'Ask' else ''))
        finally:
            run.close()
        return 1
    rec = obj['trace']
    run = KcRun()
    try:
        for e in rec['ev']:
            if e['a'] == 'Ask':
                e['obs'] = run.apply('Ask', [e['x']])
                print('Ask %s -> %s %s' % (json.dumps(e['x']), e['obs'], run.problems))
            elif e['a'] != 'Clear':
                run.apply(e['a'], [e[f] for f in 'ikc' if f in e])
                print(e['a'], [e[f] for f in 'ikc' if f in e])
    finally:
        run.close()
    rej = judge.validate(ctx, 'KcRegisterTrace', 'KcRegisterTrace.cfg', [rec], 'x03-kc-replay', parallel=1)
    print('rejected at event %s' % rej[0][1] if rej else 'accepted by KcRegisterTrace')
    return 1 if rej else 0
