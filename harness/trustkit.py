"""C14 executor: materialises an abstract world of spec/TrustChain.tla (certificate graph, packets,
schema) with real keys, real certificates and a compiled LVS schema, and drives
lvs_validator(checker, app, anchor) on legacy NDNApps over the virtual loop with a harness producer.

  KeyPool        real key pairs, generated once per run, of every key algorithm of TrustChain.tla (KeyAlgs): ECDSA on
                 P-224 / P-256 / P-384 / P-521, RSA 1024 / 2048 / 3072, Ed25519. Every key of a world has its own
                 algorithm (world['alg']: key -> algorithm), so anchor, intermediate certificates and packet signer
                 are of different key types
  materialise    world -> real names and wires (new_cert / self_sign / derive_cert, make_data). world['alias']: key
                 locators that carry the FULL name of a certificate packet (name + implicit SHA-256 digest of the packet
                 served under that name / of another packet of that name / of a packet nobody has) or the KEY name;
                 world['fp']: FreshnessPeriod of each certificate packet (positive / 0 / no such field)
  Scenario       one world, several validator instances (one application + face each), each with a key storage of the
                 kind the spec chose (default argument, the library's MemoryKeyStorage / EmptyKeyStorage, an
                 application-supplied unbounded / bounded one); stimuli = Env actions of the spec (NewValidator,
                 Validate, FetchReply, Heal, Forget)
"""
import asyncio as aio
import contextvars
import logging
from hashlib import sha256
from datetime import datetime, timedelta

from harness.appkit import Session, new_app, enc   # (use_repo runs on import)
from harness import tlc

from Cryptodome.PublicKey import ECC, RSA
from ndn.security.signer.sha256_ecdsa_signer import Sha256WithEcdsaSigner
from ndn.security.signer.sha256_rsa_signer import Sha256WithRsaSigner
from ndn.security.signer.ed25519_signer import Ed25519Signer
from ndn.security.signer.sha256_digest_signer import DigestSha256Signer
from ndn.security.signer.sha256_hmac_signer import HmacSha256Signer
from ndn.app_support import security_v2 as sv2
from ndn.app_support.light_versec import compile_lvs, Checker, lvs_validator
from ndn.security.validator import cascade_validator

logging.getLogger('ndn').setLevel(100)

LVS_STRICT = r'''
#site: "s"
#KEY: "KEY"/_/_/_
#root: #site/#KEY
#c1: #site/"c1"/_/#KEY <= #root
#c2: #site/"c2"/_/#KEY <= #c1
#c3: #site/"c3"/_/#KEY <= #c2
#d1: #site/"d1"/_ <= #root
#d2: #site/"d2"/_ <= #c1
#d3: #site/"d3"/_ <= #c2
#d4: #site/"d4"/_ <= #c3
'''
# overlapping rules: a c1-shaped certificate may also be signed by any 7-component key name (#wild),
# which the root may sign; the signing relation between RULES stays acyclic, between NAMES it does not
LVS_PEER = r'''
#site: "s"
#KEY: "KEY"/_/_/_
#root: #site/#KEY
#wild: #site/_/_/#KEY <= #root
#c1: #site/"c1"/_/#KEY <= #root | #wild
#c2: #site/"c2"/_/#KEY <= #c1
#c3: #site/"c3"/_/#KEY <= #c2
#d1: #site/"d1"/_ <= #root
#d2: #site/"d2"/_ <= #c1
#d3: #site/"d3"/_ <= #c2
#d4: #site/"d4"/_ <= #c3
'''
# two roots of trust that no name matches together: every anchor must be refused
LVS_TWO = LVS_STRICT + '''#oproot: #site/"op"/#KEY
#r1: #site/"r1"/_/#KEY <= #oproot
'''
# two roots of trust that every root-shaped name matches together
LVS_TWIN = LVS_STRICT + '''#root2: #site/_/_/"self"/_
#e1: #site/"e1"/_/#KEY <= #root2
'''
_checkers = {}


def checker_for(sch):
    if sch not in _checkers:
        _checkers[sch] = Checker(compile_lvs({'strict': LVS_STRICT, 'peer': LVS_PEER, 'two': LVS_TWO, 'twin': LVS_TWIN}[sch]), {})
    return _checkers[sch]


# key algorithm (TrustChain.tla: KeyAlgs) -> (family = signer / SignatureType, curve or modulus bits)
ALGS = {'p224': ('ec', 'P-224'), 'p256': ('ec', 'P-256'), 'p384': ('ec', 'P-384'), 'p521': ('ec', 'P-521'),
        'rsa1024': ('rsa', 1024), 'rsa2048': ('rsa', 2048), 'rsa3072': ('rsa', 3072), 'ed': ('ed', 'Ed25519')}
ALIAS = {'ec': 'p256', 'rsa': 'rsa1024'}        # names of earlier replay files
# RSA keys of these sizes take 0.2 .. 3 s each to generate: a world may use at most this many distinct keys of the algorithm
SLOW = {'rsa2048': 4, 'rsa3072': 4}
FAST = ['p224', 'p256', 'p384', 'p521', 'rsa1024', 'ed']


class KeyPool:
    def __init__(self):
        import threading
        self.keys = {a: [] for a in ALGS}
        self.lock = threading.RLock()
        self.bg = None

    def prefetch(self, counts):
        """generate the slow keys {algorithm: how many} in the background (while TLC produces the first state graphs)"""
        import threading

        def go():
            for a, n in counts.items():
                for i in range(n):
                    self.get(a, i)
        self.bg = threading.Thread(target=go, daemon=True)
        self.bg.start()

    def _generate(self, alg):
        fam, par = ALGS[alg]
        if fam == 'ec':
            k = ECC.generate(curve=par)
            return k.export_key(format='DER', use_pkcs8=False), bytes(k.public_key().export_key(format='DER'))
        if fam == 'ed':
            k = ECC.generate(curve=par)
            return k.export_key(format='DER'), bytes(k.public_key().export_key(format='DER'))
        k = RSA.generate(par)
        return k.export_key(format='DER'), bytes(k.public_key().export_key(format='DER'))

    def get(self, alg, i):
        alg = ALIAS.get(alg, alg)
        if alg not in ALGS:
            raise tlc.MachineryError('unknown key algorithm %r' % (alg,))
        if i >= SLOW.get(alg, 1000):
            raise tlc.MachineryError('world with more than %d keys of algorithm %s' % (SLOW[alg], alg))
        with self.lock:
            ks = self.keys[alg]
            while len(ks) <= i:
                ks.append(self._generate(alg))
            return ks[i]


_imported = {}


def _signer(alg, kl_name, priv, info_only=False):
    """signer of the library for key algorithm alg; the (slow) import of the private key is done once per key"""
    cls = {'ec': Sha256WithEcdsaSigner, 'rsa': Sha256WithRsaSigner, 'ed': Ed25519Signer}[ALGS[ALIAS.get(alg, alg)][0]]
    kt = alg
    if info_only:
        s = cls.__new__(cls)
        s.key_locator_name = kl_name
        return s.write_signature_info
    k = (kt, bytes(priv))
    if k not in _imported:
        _imported[k] = cls('/unused', priv)
    s = cls.__new__(cls)
    s.__dict__.update(_imported[k].__dict__)
    s.key_locator_name = kl_name if kl_name is not None else '/unused'
    if kl_name is None:
        orig = s.write_signature_info

        def no_locator(signature_info):
            orig(signature_info)
            signature_info.key_locator = None
        s.write_signature_info = no_locator
    return s


class _OddSigner(enc.Signer):
    """writes a SignatureInfo with the given SignatureType (HMAC_WITH_SHA256 = 4, or an unassigned number) and the
    given key locator, and 32 arbitrary signature bytes: nothing a public key could verify"""
    def __init__(self, sig_type, kl_name):
        self.sig_type = sig_type
        self.kl_name = kl_name

    def write_signature_info(self, signature_info):
        signature_info.signature_type = self.sig_type
        if self.kl_name is not None:
            signature_info.key_locator = enc.KeyLocator()
            signature_info.key_locator.name = self.kl_name

    def get_signature_value_size(self):
        return 32

    def write_signature_value(self, wire, contents):
        wire[:32] = bytes(range(32))
        return 32


class _ReplaySigner(enc.Signer):
    """SignatureInfo as the genuine signer of that key type and key locator writes it, SignatureValue = the bytes of
    a signature made earlier over OTHER signed bytes"""
    def __init__(self, alg, kl_name, sig_value):
        self.info = _signer(alg, kl_name, None, info_only=True)
        self.sig_value = bytes(sig_value)

    def write_signature_info(self, signature_info):
        self.info(signature_info)

    def get_signature_value_size(self):
        return len(self.sig_value)

    def write_signature_value(self, wire, contents):
        wire[:len(self.sig_value)] = self.sig_value
        return len(self.sig_value)


def _flip_last(wire):
    b = bytearray(wire)
    b[-1] ^= 0x01
    return bytes(b)


NOT_KEYS = {'forged', 'replay', 'digest', 'none', 'hmac', 'unknownsig', 'hmacpub', 'digestkl', 'wrongtype', 'wrongcurve'}
# "wrongtype": a key of another signature algorithm than the named certificate's key;
# "wrongcurve": the same signature algorithm, a key of another size (Ed25519 has one size only: another algorithm)
OTHER_TYPE = {'ec': 'rsa1024', 'rsa': 'p256', 'ed': 'p256'}
OTHER_SIZE = {'p224': 'p256', 'p256': 'p384', 'p384': 'p521', 'p521': 'p256', 'rsa1024': 'rsa2048', 'rsa2048': 'rsa1024',
              'rsa3072': 'rsa2048', 'ed': 'p256'}


def world_keys(world):
    """the key ids of a world (sorted)"""
    certs, pkts = dict(world['certs']), dict(world['pkts'])
    return sorted(({dict(c)['key'] for c in certs.values()} | {dict(c)['sig'] for c in certs.values()}
                   | {dict(p)['sig'] for p in pkts.values()}) - NOT_KEYS)


def alg_map(world):
    """key id -> algorithm, for every key of the world (TrustChain.tla: AlgOf)"""
    given = dict(world.get('alg') or {})
    default = ALIAS.get(world.get('kt'), world.get('kt')) or 'p256'       # 'kt': replay files of earlier versions
    return {k: ALIAS.get(given.get(k, default), given.get(k, default)) for k in world_keys(world)}


class Mat:
    """materialised world"""
    def __init__(self):
        self.name = {}       # abstract name -> FormalName
        self.wire = {}       # abstract name -> bytes (certificates and packets)
        self.abstract = {}   # Name bytes -> abstract name
        self.sch = None
        self.alg = {}        # key id -> algorithm


def real_name(n, shape, twin_of=None):
    """twin_of: n is another certificate (other issuer component) of the key NAME of certificate twin_of"""
    if shape == 'root':
        return enc.Name.from_str('/s/KEY/%s/self' % n)
    if shape == 'oproot':
        return enc.Name.from_str('/s/op/KEY/%s/self' % n)
    if shape in ('c1', 'c2', 'c3', 'x'):
        k = twin_of or n
        return enc.Name.from_str('/s/%s/%s/KEY/%s/%s' % (shape, k, k, 'self' if n.startswith('R') else 'j' if twin_of else 'i'))
    if shape in ('d1', 'd2', 'd3', 'd4'):
        return enc.Name.from_str('/s/%s/%s' % (shape, n))
    raise tlc.MachineryError('unknown shape %r' % (shape,))


FP_VALUE = {'pos': 3600000, 'zero': 0, 'none': None}
START = datetime(2020, 1, 1)


def make_cert(full, pub, signer, fp):
    """certificate packet named `full` (key name / issuer / version) for the public key bits `pub`; fp: FreshnessPeriod
    class (TrustChain.tla: W.fp). 'pos' is what the library's new_cert writes; for the others the packet is put together
    the way new_cert does it, with another MetaInfo (a certificate issued by another tool)."""
    end = START + timedelta(days=7300)
    if fp == 'pos':
        cname, wire = sv2.new_cert(full[:-2], full[-2], pub, signer, START, end)
        if enc.Name.to_bytes(cname) != enc.Name.to_bytes(full):
            raise tlc.MachineryError('certificate name differs from the planned one: %s' % enc.Name.to_str(cname))
        return bytes(wire)
    cv = sv2.CertificateV2Value()
    cv.name = full
    cv.content = pub
    cv.meta_info = enc.MetaInfo(content_type=enc.ContentType.KEY, freshness_period=FP_VALUE[fp])
    cv.signature_info = sv2.CertificateV2SignatureInfo()
    cv.signature_info.validity_period = sv2.ValidityPeriod()
    cv.signature_info.validity_period.not_before = START.strftime('%Y%m%dT%H%M%S').encode()
    cv.signature_info.validity_period.not_after = end.strftime('%Y%m%dT%H%M%S').encode()
    markers = {}
    cv._signer.set_arg(markers, signer)
    value = cv.encode(markers=markers)
    n = len(value) - cv._shrink_len.get_arg(markers)
    tl, sl = enc.get_tl_num_size(enc.TypeNumber.DATA), enc.get_tl_num_size(n)
    buf = bytearray(tl + sl + n)
    enc.write_tl_num(enc.TypeNumber.DATA, buf)
    enc.write_tl_num(n, buf, tl)
    buf[tl + sl:] = memoryview(value)[0:n]
    _, mi, content, _ = enc.parse_data(buf)
    if mi.freshness_period != FP_VALUE[fp] or bytes(content) != bytes(pub):
        raise tlc.MachineryError('certificate with FreshnessPeriod %s not built as planned' % fp)
    return bytes(buf)


def world_alias(world):
    """W.alias without the entry that only keeps the JSON object non-empty"""
    return {n: dict(a) for n, a in dict(world.get('alias') or {}).items() if dict(a).get('kind') in ('full', 'key')}


def pins_resolvable(world):
    """a full name contains the digest of a packet: a packet cannot name (through its key locator, directly or along the
    key locators) a full name of itself. True iff every full name of the world can be computed."""
    alias = world_alias(world)
    certs = {k: dict(v) for k, v in dict(world['certs']).items()}
    state = {}

    def need_wire(n):            # the wire of certificate n needs the name of its key locator
        if state.get(n) == 1:
            return False
        if state.get(n) == 2:
            return True
        state[n] = 1
        a = alias.get(n)
        ok = True
        if a and a['pk'] != n:
            ok = a['pk'] not in certs or need_wire(a['pk'])
        else:
            kl = certs[n]['kl']
            a2 = alias.get(kl)
            if a2 and a2['kind'] == 'full' and a2['pk'] in certs:
                ok = need_wire(a2['pk'])
        state[n] = 2 if ok else 1
        return ok
    return all(need_wire(n) for n in sorted(certs))


def materialise(world, pool):
    """world: dict with schema (iterable of pairs), shape, certs, pkts, sch, alg, alias, fp; must run inside a Session
    (certificate versions come from the virtual clock)."""
    m = Mat()
    m.sch = world['sch']
    shape = dict(world['shape'])
    certs = {k: dict(v) for k, v in dict(world['certs']).items()}
    pkts = {k: dict(v) for k, v in dict(world['pkts']).items()}
    alias = world_alias(world)
    fp = dict(world.get('fp') or {})
    ver = enc.Component.from_version(sv2.timestamp())
    for n, sh in shape.items():
        if sh == 'nil' or n in alias:
            continue
        rn = real_name(n, sh, dict(world.get('twin') or {}).get(n))
        m.name[n] = rn + [ver] if not sh.startswith('d') else rn
    key_ids = world_keys(world)
    alg = alg_map(world)
    m.alg = alg
    kidx = {}                 # key id -> index among the world's keys of its algorithm
    for k in key_ids:
        kidx[k] = sum(1 for j in kidx if alg[j] == alg[k])

    def priv(k):
        return pool.get(alg[k], kidx[k])[0]

    def pub(k):
        return pool.get(alg[k], kidx[k])[1]

    def named_key(el):
        """the key of the certificate the element names (what a verifier would use)"""
        return certs[el['kl']]['key'] if el['kl'] in certs else key_ids[0]

    replay = dict(world.get('replay') or {})

    busy = set()

    def name_of(n):
        """real name of abstract name n; a full name needs the wire of the packet it pins"""
        if n in m.name:
            return m.name[n]
        a = alias[n]
        base = name_of(a['base'])
        if a['kind'] == 'key':
            rn = base[:-2]
        else:
            pk = a['pk']
            if pk == a['base'] or pk in certs:
                digest = sha256(wire_of(pk)).digest()
            else:
                digest = sha256(b'a packet nobody serves: ' + pk.encode()).digest()
            rn = base + [enc.Component.from_bytes(digest, enc.Component.TYPE_IMPLICIT_SHA256)]
        m.name[n] = rn
        return rn

    def wire_of(n):
        """wire of the certificate packet served for request name n"""
        if n in m.wire:
            return m.wire[n]
        if n in busy:
            raise tlc.MachineryError('world not materialisable: the full name %s depends on its own packet' % n)
        busy.add(n)
        a = alias.get(n)
        if a and a['pk'] != n:
            w = wire_of(a['pk'])                  # the full name of the packet served under the plain name
        else:
            c = certs[n]
            sg, forge = signer_for(c, n)
            w = make_cert(name_of(a['base']) if a else m.name[n], pub(c['key']), sg, fp.get(a['pk'] if a else n, 'pos'))
            if forge:
                w = _flip_last(w)
        busy.discard(n)
        m.wire[n] = w
        return w

    def signer_for(el, n=None):
        kl = None if el['kl'] == 'none' else name_of(el['kl'])
        if el['sig'] == 'replay':
            src = replay[n]
            _, _, _, sp = enc.parse_data(wire_of(src) if src in certs else pkt_wire(src))
            sk = (certs.get(src) or pkts.get(src))['sig']
            return _ReplaySigner(alg.get(sk, 'p256'), kl, sp.signature_value_buf), False
        if el['sig'] == 'digest':
            return DigestSha256Signer(), False
        if el['sig'] == 'hmacpub':
            # HMAC keyed with what everybody knows: the public key bits of the certificate the key locator names
            return HmacSha256Signer(kl, pub(named_key(el))), False
        if el['sig'] == 'digestkl':
            sg = DigestSha256Signer()
            orig = sg.write_signature_info

            def with_locator(signature_info):
                orig(signature_info)
                signature_info.key_locator = enc.KeyLocator()
                signature_info.key_locator.name = kl
            sg.write_signature_info = with_locator
            return sg, False
        if el['sig'] == 'wrongtype':
            # a genuine signature, but of another algorithm than the key of the named certificate
            other = OTHER_TYPE[ALGS[alg[named_key(el)]][0]]
            return _signer(other, kl, pool.get(other, 0)[0]), False
        if el['sig'] == 'wrongcurve':
            # a genuine signature of the algorithm of the named certificate's key, made with a key of another size
            other = OTHER_SIZE[alg[named_key(el)]]
            return _signer(other, kl, pool.get(other, 0)[0]), False
        if el['sig'] in ('hmac', 'unknownsig'):
            return _OddSigner(enc.SignatureType.HMAC_WITH_SHA256 if el['sig'] == 'hmac' else 200, kl), False
        if el['sig'] == 'forged':
            k = named_key(el)
            return _signer(alg[k], kl, priv(k)), True
        return _signer(alg[el['sig']], kl, priv(el['sig'])), False

    def pkt_wire(n):
        if n not in m.wire:
            sg, forge = signer_for(pkts[n], n)
            wire = enc.make_data(m.name[n], enc.MetaInfo(freshness_period=1000), b'payload of ' + n.encode(), sg)
            m.wire[n] = _flip_last(bytes(wire)) if forge else bytes(wire)
        return m.wire[n]
    for n in sorted(certs):
        wire_of(n)
    for n in sorted(pkts):
        pkt_wire(n)
    for n in sorted(alias):
        name_of(n)
    for n, rn in m.name.items():
        m.abstract[enc.Name.to_bytes(rn)] = n
    if len(m.abstract) != len(m.name):
        raise tlc.MachineryError('two abstract names with one real name')
    # which requests a delivered packet satisfies (TrustChain.tla: Sat), by the rules of the protocol on the real bytes:
    # the Interests for its name and those for its name + the digest of the packet
    for n in certs:
        a = alias.get(n, {'base': n, 'pk': n})
        want = {x for x in m.name if (x in alias and alias[x]['kind'] == 'full' or x not in alias)
                and alias.get(x, {'base': x})['base'] == a['base'] and (x not in alias or alias[x]['pk'] == a['pk'])}
        got = {x for x in m.name if satisfies(m.wire[n], m.name[x])}
        if want != got:
            raise tlc.MachineryError('the packet served for %s satisfies Interests for %s, the world says %s' % (n, sorted(got), sorted(want)))
    # the compiled schema must decide the naming relation exactly as the world's table says
    chk = checker_for(m.sch)
    rel = {tuple(x) for x in world['schema']}
    for a in m.name:
        for b in m.name:
            if shape[b].startswith('d'):
                continue
            want = (shape[a], shape[b]) in rel
            got = chk.check(m.name[a], m.name[b])
            if want != got:
                raise tlc.MachineryError('schema %s: check(%s, %s) = %s but the world says %s' % (
                    m.sch, enc.Name.to_str(m.name[a]), enc.Name.to_str(m.name[b]), got, want))
    return m


def satisfies(data_wire, interest_name):
    """would this Data satisfy an Interest (CanBePrefix not set) of that name: the Data's name, or its full name"""
    dname, _, _, _ = enc.parse_data(data_wire)
    dn, iname = enc.Name.to_bytes(dname), enc.Name.to_bytes(interest_name)
    if dn == iname:
        return True
    full = dname + [enc.Component.from_bytes(sha256(bytes(data_wire)).digest(), enc.Component.TYPE_IMPLICIT_SHA256)]
    return enc.Name.to_bytes(full) == iname


class AppStorage(cascade_validator.PublicKeyStorage):
    """a key storage supplied by the application: a mapping that keeps the `cap` entries saved last (None: all) and can
    lose what it holds (TrustChain.tla: store kinds "app", "fifo1", "fifo2"; Forget)"""
    def __init__(self, cap=None):
        self.cap = cap
        self.d = {}

    def load(self, name):
        return self.d.get(enc.Name.to_bytes(name))

    def save(self, name, key_bits):
        k = enc.Name.to_bytes(name)
        if k not in self.d and self.cap is not None:
            while self.d and len(self.d) >= self.cap:
                del self.d[next(iter(self.d))]
            if self.cap == 0:
                return
        self.d[k] = bytes(key_bits)

    def forget(self):
        self.d.clear()


def new_storage(kind):
    """the `storage` argument for the storage kind the spec chose (None = leave the argument out)"""
    if kind in (None, 'default'):
        return None
    if kind == 'memory':
        return cascade_validator.MemoryKeyStorage()
    if kind == 'empty':
        return cascade_validator.EmptyKeyStorage()
    if kind in ('app', 'fifo1', 'fifo2'):
        return AppStorage({'app': None, 'fifo1': 1, 'fifo2': 2}[kind])
    raise tlc.MachineryError('unknown key storage kind %r' % (kind,))


def reset_default_storages():
    """the default-argument key storages live as long as the process: empty them between scenarios
    (harness hygiene only; a fresh interpreter per scenario would do the same)."""
    for fn in (lvs_validator, cascade_validator.CascadeChecker.__init__):
        for d in (fn.__defaults__ or ()):
            if isinstance(d, cascade_validator.MemoryKeyStorage):
                d._cache.clear()


NACK_REASONS = [150, 50, 100, 0, 151, 1000]


def inst_of(slot):
    """slot -> validator instance (TrustChain.tla: I)"""
    return {'v1b': 'v1', 'v2b': 'v2'}.get(slot, slot)


class Scenario:
    """One world; validator instances `insts`, each on its own legacy NDNApp + face or (same_app) all on one;
    `slots` = validations that may be in progress at once ("v1b" = second validation on v1 while the first waits)."""

    def __init__(self, world, insts, pool=None, mat_cache=None, slots=None, same_app=False):
        self.world = world
        self.insts = list(insts)
        self.slots = list(slots) if slots else list(insts)
        self.same_app = same_app
        self.sess = Session()
        self.sess.__enter__()
        reset_default_storages()
        key = repr(sorted((k, repr(v)) for k, v in world.items()))
        if mat_cache is not None and key in mat_cache:
            self.mat = mat_cache[key]
        else:
            self.mat = materialise(world, pool)
            if mat_cache is not None:
                mat_cache[key] = self.mat
        self.apps = ['app'] if same_app else list(self.insts)
        self.app, self.face, self.seen, self.wire, self.sender = {}, {}, {}, {}, {}
        for a in self.apps:
            self.app[a], self.face[a] = new_app('legacy')
            self.seen[a] = 0
            self.wire[a] = []
            self.sender[a] = []                 # task that sent the i-th packet of face a
            self._tap(a)
        self.validator, self.status = {}, {v: 'none' for v in self.insts}
        self.storage = {}                      # instance -> the storage object it was given (None: default argument)
        self.alias = world_alias(world)
        self.task = {s: None for s in self.slots}
        self.cur, self.asked = {}, {s: [] for s in self.slots}
        self.pending = {a: [] for a in self.apps}      # unanswered certificate Interests: (abstract name, wire)
        # An application that validates packet after packet does so from one task: the validations of an instance run
        # in ONE context (contextvars are per task), so what a validation leaves behind in a context variable is seen
        # by the next one. A validation started while another one of the instance is still in progress must be a task
        # of its own, spawned from somewhere else in the application: it gets a copy of the spawner's context (not of
        # the context the first validation is in the middle of using).
        self.ctx = {v: contextvars.copy_context() for v in self.insts}
        self.spawner_ctx = contextvars.copy_context()
        self.serv = {n: c['serv'] for n, c in dict(world['certs']).items()}   # changes with heal()
        self.dead = set()      # instances with a validation that re-requested a certificate it was already resolving
        self.done_order = []
        self.out = []
        self.errors = []
        self.nacks = 0

    def app_of(self, v):
        return 'app' if self.same_app else v

    def _tap(self, a):
        face, sender = self.face[a], self.sender[a]
        orig = face.send

        def send(data):
            try:
                sender.append(aio.current_task())
            except RuntimeError:
                sender.append(None)
            orig(data)
        face.send = send

    def close(self):
        self.sess.__exit__(None, None, None)

    def _scan(self):
        slot_of = {t: s for s, t in self.task.items() if t is not None}
        for a in self.apps:
            f = self.face[a]
            while self.seen[a] < len(f.out):
                w = f.out[self.seen[a]]
                s = slot_of.get(self.sender[a][self.seen[a]])
                self.seen[a] += 1
                name, param, _, _ = enc.parse_interest(w)
                n = self.mat.abstract.get(enc.Name.to_bytes(name), 'unknown:' + enc.Name.to_str(name))
                if s is not None:
                    if n in self.asked[s] and inst_of(s) not in self.dead:
                        # the same certificate requested twice within one validation: it follows a key-locator loop
                        self.dead.add(inst_of(s))
                        self.out.append((inst_of(s), self.cur[s], 'diverged'))
                    self.asked[s].append(n)
                self.wire[a].append(n)
                self.pending[a].append((n, w))
                if param.can_be_prefix or not param.must_be_fresh:
                    self.errors.append('certificate Interest for %s with can_be_prefix=%s must_be_fresh=%s' % (
                        n, param.can_be_prefix, param.must_be_fresh))
        for s in self.done_order:
            t = self.task[s]
            self.task[s] = None
            if inst_of(s) in self.dead:
                continue
            if t.cancelled():
                r = 'cancelled'
            elif t.exception() is not None:
                r = 'exc:' + type(t.exception()).__name__
            else:
                r = 'T' if t.result() is True else 'F' if t.result() is False else 'other:%r' % (t.result(),)
            self.out.append((inst_of(s), self.cur[s], r))
        del self.done_order[:]

    # ---- stimuli
    def new_validator(self, v, a, store='default'):
        # the anchor is handed over in a mutable buffer (what self_sign / new_cert return) which the caller then
        # reuses: the validator must have taken what it needs at construction
        buf = bytearray(self.mat.wire[a])
        self.storage[v] = new_storage(store)
        try:
            if self.storage[v] is None:
                self.validator[v] = lvs_validator(checker_for(self.mat.sch), self.app[self.app_of(v)], buf)
            else:
                self.validator[v] = lvs_validator(checker_for(self.mat.sch), self.app[self.app_of(v)], buf, self.storage[v])
            self.status[v] = 'ok'
        except ValueError:
            self.status[v] = 'refused'
        except BaseException as e:  # noqa
            self.status[v] = 'exc:' + type(e).__name__
        other = [w for n, w in sorted(self.mat.wire.items()) if n != a and self.world['shape'].get(n) == 'root']
        fill = (other[0] if other else b'') + bytes(len(buf))
        buf[:] = fill[:len(buf)]          # the buffer now holds (the beginning of) another root certificate / zeros
        self.sess.loop.settle()
        self._scan()

    def free_slot(self, v):
        """the slot a new validation of instance v takes (None: all busy)"""
        for s in self.slots:
            if inst_of(s) == v and self.task[s] is None:
                return s
        return None

    def validate(self, s, p):
        v = inst_of(s)
        name, _, _, sig = enc.parse_data(self.mat.wire[p])
        self.cur[s] = p
        self.asked[s] = []
        busy = any(t is not None for u, t in self.task.items() if inst_of(u) == v)
        ctx = self.spawner_ctx.copy() if busy else self.ctx[v]
        t = self.sess.loop.create_task(self.validator[v](name, sig), context=ctx)
        t.add_done_callback(lambda _t, s=s: self.done_order.append(s))
        self.task[s] = t
        self.sess.loop.settle()
        self._scan()

    def same_packet(self, m, n):
        """two request names of one packet (TrustChain.tla: SameP)"""
        am, an = self.alias.get(m, {'base': m, 'pk': m}), self.alias.get(n, {'base': n, 'pk': n})
        return am['base'] == an['base'] and am['pk'] == an['pk']

    def heal(self, n):
        """the certificate n, which could not be fetched so far, is published (under every name it has)"""
        for m in self.serv:
            if self.same_packet(m, n):
                self.serv[m] = 'yes'

    def forget(self, v):
        """the application-supplied key storage of instance v loses what it holds"""
        st = self.storage.get(v)
        if not isinstance(st, AppStorage):
            raise tlc.MachineryError('Forget on instance %s whose key storage is not the application\'s' % v)
        st.forget()

    def deliverable(self, a, n):
        """bound of the spec (FetchReply): the packet of n is not delivered to application a while an Interest is pending
        there that it would satisfy although the world answers that Interest with another packet"""
        return all(self.same_packet(m, n) for m, _ in self.pending[a]
                   if m in self.mat.name and satisfies(self.mat.wire[n], self.mat.name[m]))

    def waiting(self):
        """[(application, abstract certificate name)] with unanswered Interests, oldest first, no duplicates"""
        out = []
        for a in self.apps:
            for n, _ in self.pending[a]:
                if (a, n) not in out:
                    out.append((a, n))
        return out

    def serv_of(self, n):
        return self.serv.get(n, 'absent')

    def fetch_reply(self, a, n, kind):
        """answer the Interest(s) for certificate n pending on application a (one Data / Nack answers all of them)"""
        mine = [w for m, w in self.pending[a] if m == n]
        if kind == 'yes':
            # what the Data satisfies is decided on the real bytes (its name, or its name + digest)
            self.pending[a] = [(m, w) for m, w in self.pending[a]
                               if not (m in self.mat.name and satisfies(self.mat.wire[n], self.mat.name[m]))]
            self._deliver(a, self.mat.wire[n])
        elif kind == 'nack':
            self.pending[a] = [(m, w) for m, w in self.pending[a] if m != n]
            self._deliver(a, enc.make_network_nack(mine[0], NACK_REASONS[self.nacks % len(NACK_REASONS)]))
            self.nacks += 1
        else:
            # no answer: the lifetime (4 s) passes - for every validation that is waiting
            self.sess.loop.advance_to(self.sess.loop.time() + 4.0)
            for u in self.apps:
                self.pending[u] = []
        self.sess.loop.settle()
        self._scan()

    def _deliver(self, a, wire):
        typ, _ = enc.parse_tl_num(wire)
        box = {}

        async def go():
            try:
                await self.face[a].callback(typ, wire)
            except BaseException as e:  # noqa
                box['e'] = e
        self.sess.spawn(go())
        self.sess.loop.settle()
        if 'e' in box:
            self.errors.append('receive raised %r' % (box['e'],))

    # ---- projection
    def post(self):
        return {'wire': {a: list(self.wire[a]) for a in self.apps},
                'out': [{'v': v, 'p': p, 'r': r} for v, p, r in self.out],
                'inst': {v: self.status[v] for v in self.insts}}
