"""Executor for X03 (validators part): builds the packet descriptions of spec/Validators.tla as real bytes and
calls the real checkers of ndn.security.validator.

* Keys: two independent keys per algorithm (RSA-2048 / RSA-1024, ECDSA P-256, Ed25519, HMAC), generated once per
  run from the run seed (Cryptodome's randfunc hook).  ECDSA signing itself is randomised: only verdicts are compared.
* Genuine packets come from the library: make_data / make_interest with the real signers of ndn.security.signer.
  A thin Signer wrapper delegates the signature value to the real signer and only edits the SignatureInfo the real
  signer wrote (announced type, KeyLocator class, SignatureTime/Nonce/SeqNum) BEFORE signing, so the value is a
  genuine signature over what the packet says.
* Tampering = byte surgery on the finished packet with harness/strict_tlv (independent of ndn.encoding).
* `describe()` re-derives the abstract attributes from the final bytes, again independently (strict_tlv, hashlib,
  Cryptodome primitives); a disagreement with the description that was asked for is a harness error
  (MachineryError), never a verdict.
* The checkers are awaited on the virtual loop (harness.vloop.Session); checker objects are cached and reused for
  all packets of a world.
"""
import hashlib, json, random
from datetime import datetime

from harness import strict_tlv as st
from harness.tlc import MachineryError
from harness.vloop import Session  # noqa: F401  (use_repo() runs on import)

KEYTYPES = ('rsa', 'ecdsa', 'hmac', 'ed')
SIGNUM = {'digest': 0, 'rsa': 1, 'ecdsa': 3, 'hmac': 4, 'ed': 5}
UNKNOWN_TYPES = (200, 2, 6, 77, 255)
VALUE_TAMPERS = ('sv_subst', 'sv_trunc', 'sv_long', 'sv_empty', 'sv_absent')
SIGNED_TAMPERS = ('name', 'content', 'siginfo')
FN_NAMES = {'digest': 'sha256_digest_checker', 'params': 'params_sha256_checker', 'union': 'union_checker',
            'rsa': 'RsaChecker', 'ecdsa': 'EccChecker', 'hmac': 'HmacChecker', 'ed': 'Ed25519Checker',
            'v_rsa': 'verify_rsa', 'v_ecdsa': 'verify_ecdsa', 'v_hmac': 'verify_hmac', 'v_ed': 'verify_ed25519'}
T_NAME, T_DIGESTCOMP = 7, 2
T_INT, T_DATA = 5, 6
T_APPPARAM, T_ISIGINFO, T_ISIGVAL = 0x24, 0x2c, 0x2e
T_META, T_CONTENT, T_DSIGINFO, T_DSIGVAL = 0x14, 0x15, 0x16, 0x17
T_SIGTYPE, T_KEYLOC, T_KEYDIGEST = 0x1b, 0x1c, 0x1d
T_SIGNONCE, T_SIGTIME, T_SIGSEQ = 0x26, 0x28, 0x2a
SIZES_SMALL = (0, 1, 2, 7, 16, 31, 32, 33, 64, 100, 200)
SIZES_EDGE = (250, 251, 252, 253, 254, 255, 256, 300, 1000)
SIZES_BIG = (65533, 65534, 65535, 65536, 65537, 66000, 70001)


# ---------------------------------------------------------------------------------------------- keys

class Keys:
    """Seeded key material.  priv[(alg, kid)] = private key (DER bytes; HMAC: the key), bits[(alg, kid)] = what a
    checker is built with (public key DER; HMAC: the key).  xbits[alg] = bits of ANOTHER algorithm."""

    def __init__(self, seed):
        from Cryptodome.PublicKey import ECC, RSA
        r = random.Random('x03-keys-%d' % seed)
        rf = r.randbytes
        self.seed = seed
        self.obj, self.priv, self.bits = {}, {}, {}
        for kid, nbits in (('A', 2048), ('B', 1024)):
            k = RSA.generate(nbits, randfunc=rf)
            self.obj['rsa', kid] = k
            self.priv['rsa', kid] = k.export_key(format='DER')
            self.bits['rsa', kid] = bytes(k.public_key().export_key(format='DER'))
        for alg, curve in (('ecdsa', 'P-256'), ('ed', 'ed25519')):
            for kid in 'AB':
                k = ECC.generate(curve=curve, randfunc=rf)
                self.obj[alg, kid] = k
                self.priv[alg, kid] = k.export_key(format='DER')
                self.bits[alg, kid] = bytes(k.public_key().export_key(format='DER'))
        for kid, n in (('A', 32), ('B', 7)):
            self.priv['hmac', kid] = self.bits['hmac', kid] = rf(n)
        self.xbits = {'ecdsa': self.bits['ed', 'A'], 'ed': self.bits['ecdsa', 'A'],
                      'rsa': self.bits['ecdsa', 'B'], 'hmac': self.bits['rsa', 'B']}

    def checker_bits(self, fn, ckey):
        return self.xbits[fn] if ckey == 'X' else self.bits[fn, ckey]

    def pubobj(self, alg, kid):
        """imported public key object (what verify_rsa / verify_ecdsa / verify_ed25519 take); HMAC: the bytes"""
        if alg == 'hmac':
            return self.bits[alg, kid]
        return self.obj[alg, kid].public_key()

    def verify(self, alg, kid, portion, value):
        """independent verification with the Cryptodome primitives (the harness' own oracle)"""
        from Cryptodome.Hash import SHA256, HMAC
        from Cryptodome.Signature import DSS, pkcs1_15, eddsa
        msg = b''.join(portion)
        try:
            if alg == 'digest':
                return hashlib.sha256(msg).digest() == value
            if alg == 'hmac':
                HMAC.new(self.priv['hmac', kid], msg, digestmod=SHA256).verify(value)
            elif alg == 'rsa':
                pkcs1_15.new(self.obj['rsa', kid].public_key()).verify(SHA256.new(msg), value)
            elif alg == 'ecdsa':
                DSS.new(self.obj['ecdsa', kid].public_key(), 'fips-186-3', 'der').verify(SHA256.new(msg), value)
            elif alg == 'ed':
                eddsa.new(self.obj['ed', kid].public_key(), 'rfc8032').verify(msg, value)
            else:
                return False
            return True
        except ValueError:
            return False


# ---------------------------------------------------------------------------------------------- bytes helpers

def comp(value, typ=8):
    return st.write_tlv([(typ, bytes(value))])


def split_name(namebytes):
    """value of a Name element -> list of component encodings"""
    return [bytes(namebytes[a:d]) for _, a, _, d in st.read_elements(namebytes)]


def comp_type(c):
    return st.parse_var(c, 0)[0]


def comp_value(c):
    t, a, b, d = st.read_elements(c)[0]
    return bytes(c[b:d])


class Pkt:
    """One Interest / Data as a flat list of its top-level elements."""

    def __init__(self, wire):
        wire = bytes(wire)
        tree = st.read_tlv(wire, {T_INT: {}, T_DATA: {}})
        if len(tree) != 1 or tree[0][0] not in (T_INT, T_DATA):
            raise MachineryError('not one Interest / Data: %s' % wire[:40].hex())
        self.top = tree[0][0]
        self.kids = [[t, bytes(v)] for t, v in tree[0][1]]

    @property
    def kind(self):
        return 'I' if self.top == T_INT else 'D'

    def idx(self, t):
        for i, k in enumerate(self.kids):
            if k[0] == t:
                return i
        return None

    def get(self, t):
        i = self.idx(t)
        return None if i is None else self.kids[i][1]

    def put(self, t, v):
        self.kids[self.idx(t)][1] = bytes(v)

    def remove(self, t):
        del self.kids[self.idx(t)]

    def enc(self, i):
        return st.write_tlv([(self.kids[i][0], self.kids[i][1])])

    def wire(self):
        return st.write_tlv([(self.top, [(t, v) for t, v in self.kids])])

    # NDN packet format 0.3: what the signature / the parameters digest cover
    def sigtypes(self):
        return (T_ISIGINFO, T_ISIGVAL) if self.top == T_INT else (T_DSIGINFO, T_DSIGVAL)

    def signed_portion(self):
        _, tval = self.sigtypes()
        stop = self.idx(tval)
        stop = len(self.kids) if stop is None else stop
        if self.top == T_DATA:
            return [self.enc(i) for i in range(stop)]
        start = self.idx(T_APPPARAM)
        out = [c for c in split_name(self.get(T_NAME)) if comp_type(c) != T_DIGESTCOMP]
        if start is not None:
            out += [self.enc(i) for i in range(start, stop)]
        return out

    def digest_region(self):
        start = self.idx(T_APPPARAM)
        if start is None:
            return None
        return b''.join(self.enc(i) for i in range(start, len(self.kids)))


def flip(b, rng, pos=None):
    b = bytearray(b)
    i = rng.randrange(len(b)) if pos is None else pos
    b[i] ^= 1 << rng.randrange(8)
    return bytes(b)


# ---------------------------------------------------------------------------------------------- describing bytes

def describe(wire, K):
    """Abstract attributes of a packet, re-derived from its bytes (independent of ndn.encoding).  K = list of
    component encodings of the key name the checkers are built with."""
    pk = Pkt(wire)
    tinfo, tval = pk.sigtypes()
    d = {'kind': pk.kind}
    info = pk.get(tinfo)
    d['declnum'] = None
    d['loc'] = 'absent'
    if info is not None:
        for t, a, b, e in st.read_elements(info):
            if t == T_SIGTYPE:
                d['declnum'] = st.read_uint(info[b:e])
            elif t == T_KEYLOC:
                inner = st.read_elements(info, b, e)
                names = [x for x in inner if x[0] == T_NAME]
                if not names:
                    d['loc'] = 'digest'
                else:
                    comps = split_name(info[names[0][2]:names[0][3]])
                    if not comps:
                        d['loc'] = 'empty'
                    elif comps == K:
                        d['loc'] = 'K'
                    elif comps[:len(K)] == K:
                        d['loc'] = 'Kext'
                    elif K[:len(comps)] == comps:
                        d['loc'] = 'Kpre'
                    else:
                        d['loc'] = 'other'
    d['decl'] = 'none' if info is None else {v: k for k, v in SIGNUM.items()}.get(d['declnum'], 'unknown')
    sv = pk.get(tval)
    d['sv'] = 'absent' if sv is None else 'empty' if len(sv) == 0 else 'present'
    d['value'] = sv
    d['portion'] = pk.signed_portion()
    d['params'] = d['digest'] = 'absent'
    d['dpos'] = 'none'
    if pk.kind == 'I':
        ap = pk.get(T_APPPARAM)
        d['params'] = 'absent' if ap is None else 'empty' if len(ap) == 0 else 'nonempty'
        comps = split_name(pk.get(T_NAME))
        where = [i for i, c in enumerate(comps) if comp_type(c) == T_DIGESTCOMP]
        if where:
            d['dpos'] = 'end' if where[-1] == len(comps) - 1 else 'mid'
            region = pk.digest_region()
            ok = region is not None and len(where) == 1 and hashlib.sha256(region).digest() == comp_value(comps[where[0]])
            d['digest'] = 'correct' if ok else 'wrong'
    return d


# ---------------------------------------------------------------------------------------------- the world

class World:
    """Key name K + signers + checker objects (cached, reused for every packet) + packet builder."""

    def __init__(self, keys, sess, kname=None, rng=None):
        from ndn.encoding import Name
        self.keys = keys
        self.sess = sess
        self.K = [bytes(c) for c in Name.normalize(kname or '/x03/alice/KEY/%AA%01')]
        self.kuri = Name.to_str(self.K)
        self.rng = rng or random.Random(0)
        self._signers = {}
        self._checkers = {}
        self._certs = {}
        self._genuine = {}
        self.calls = []

    # -- key locator names of every class
    def loc_name(self, loc, rng):
        K = self.K
        if loc == 'K':
            return list(K)
        if loc == 'Kext':
            ext = [[comp(b'self'), comp(b'\x00\x00\x01\x8b', 0x36)], [comp(b'x')], [comp(b'')], [comp(b'a'), comp(b'b'), comp(b'c')]]
            return list(K) + rng.choice(ext)
        if loc == 'Kpre':
            return list(K[:rng.randint(1, len(K) - 1)])
        last = K[-1]
        v, t = comp_value(last), comp_type(last)
        alts = [K[:-1] + [comp(v + b'x', t)],                        # the last component is a byte-prefix of this one
                K[:-1] + [comp(v[:-1], t)] if v else None,            # ... or this one a byte-prefix of it
                K[:-1] + [comp(v, 0x36 if t == 8 else 8)],            # same value, other component type
                [comp(b'x03-mallory')] + K[1:],
                K[:-1] + [comp(b'other')],
                [comp(b'zz')]]
        return rng.choice([a for a in alts if a])

    # -- signers
    def real_signer(self, alg, kid, locname):
        from ndn.security import signer as sg
        key = (alg, kid, tuple(locname))
        s = self._signers.get(key)
        if s is None:
            if alg == 'digest':
                s = sg.DigestSha256Signer()
            elif alg == 'rsa':
                s = sg.Sha256WithRsaSigner(locname, self.keys.priv['rsa', kid])
            elif alg == 'ecdsa':
                s = sg.Sha256WithEcdsaSigner(locname, self.keys.priv['ecdsa', kid])
            elif alg == 'ed':
                s = sg.Ed25519Signer(locname, self.keys.priv['ed', kid])
            else:
                s = sg.HmacSha256Signer(locname, self.keys.priv['hmac', kid])
            if len(self._signers) > 4000:
                self._signers.clear()
            self._signers[key] = s
        return s

    def wrapped(self, p, rng, extra):
        from ndn.encoding import Signer, KeyLocator
        locname = self.loc_name(p['loc'], rng) if p['loc'] in ('K', 'Kext', 'Kpre', 'other') else list(self.K)
        real = self.real_signer(p['alg'], p['skey'], locname)
        declnum = None if p['decl'] == p['alg'] else (rng.choice(UNKNOWN_TYPES) if p['decl'] == 'unknown' else SIGNUM[p['decl']])
        loc = p['loc']
        kd = rng.randbytes(32)

        class Wrap(Signer):
            def write_signature_info(self, si):
                real.write_signature_info(si)
                if declnum is not None:
                    si.signature_type = declnum
                if loc == 'absent':
                    si.key_locator = None
                elif loc == 'digest':
                    si.key_locator = KeyLocator()
                    si.key_locator.key_digest = kd
                elif loc == 'empty':
                    si.key_locator = KeyLocator()
                    si.key_locator.name = []
                else:
                    si.key_locator = KeyLocator()
                    si.key_locator.name = locname
                for k, v in extra.items():
                    setattr(si, k, v)

            def get_signature_value_size(self):
                return real.get_signature_value_size()

            def write_signature_value(self, wire, contents):
                return real.write_signature_value(wire, contents)
        return Wrap()

    # -- genuine packet + surgery
    def rand_name(self, rng):
        n = rng.randint(1, 5)
        out = []
        for _ in range(n):
            t = rng.choice((8, 8, 8, 8, 0x32, 0x36, 0x20))
            out.append(comp(rng.randbytes(rng.choice((0, 1, 1, 2, 3, 5, 8, 12))), t))
        return out

    def payload(self, rng, size):
        if size == 'small':
            n = rng.choice(SIZES_SMALL)
        elif size == 'edge':
            n = rng.choice(SIZES_EDGE)
        elif size == 'big':
            n = rng.choice(SIZES_BIG)
        else:
            n = rng.choice(SIZES_SMALL + SIZES_SMALL + SIZES_EDGE)
        return rng.randbytes(n)

    def genuine(self, p, bs, size='mix'):
        """the untampered packet for a description, made by the library (cached: all tampers of one description and
        base seed start from the same genuine packet).  Its signature is verified with the harness' own oracle."""
        from ndn.encoding import make_data, make_interest, MetaInfo, InterestParam
        key = (p['kind'], p['decl'], p['alg'], p['skey'], p['loc'], p['params'], p['dpos'], bs, size)
        hit = self._genuine.get(key)
        if hit is not None:
            return hit
        rng = random.Random(bs)
        name = self.rand_name(rng)
        signer = None
        if p['alg'] != 'none':
            extra = {}
            if p['kind'] == 'I' or rng.random() < 0.45:
                for k in ('signature_time', 'signature_nonce', 'signature_seq_num'):
                    if rng.random() < 0.6:
                        extra[k] = rng.choice((0, 1, 255, 256, 65536, 1700000000000, rng.getrandbits(63)))
            signer = self.wrapped(p, rng, extra)
        if p['kind'] == 'D':
            meta = MetaInfo(content_type=rng.choice((0, 0, 1, 2, 3)), freshness_period=rng.choice((None, 0, 10, 4000, 3600000)),
                            final_block_id=rng.choice((None, None, comp(b'\x09', 0x32))))
            content = self.payload(rng, size)
            if not content and rng.random() < 0.5:
                content = None
            wire = make_data(name, meta, content, signer=signer)
        else:
            ip = InterestParam(can_be_prefix=rng.random() < 0.3, must_be_fresh=rng.random() < 0.3,
                               nonce=rng.getrandbits(32), lifetime=rng.choice((None, 10, 4000, 60000)),
                               hop_limit=rng.choice((None, None, 0, 32, 255)))
            if rng.random() < 0.2:
                ip.forwarding_hint = ['/x03/hint']
            ap = None if p['params'] == 'absent' else b'' if p['params'] == 'empty' else (self.payload(rng, size) or b'\x00')
            nm = list(name)
            if ap is not None and p['dpos'] == 'mid':
                nm.insert(rng.randrange(len(nm)), comp(bytes(32), T_DIGESTCOMP))       # the library fills the placeholder
            wire = make_interest(nm, ip, ap, signer=signer)
        wire = bytes(wire)
        if p['alg'] != 'none':
            pk = Pkt(wire)
            portion, value = pk.signed_portion(), pk.get(pk.sigtypes()[1])
            if not self.keys.verify(p['alg'], p['skey'], portion, value):
                raise MachineryError('valkit: the genuine %s packet does not verify under its own key' % p['alg'])
            other = 'B' if p['skey'] == 'A' else 'A'
            if p['alg'] != 'digest' and self.keys.verify(p['alg'], other, portion, value):
                raise MachineryError('valkit: the packet verifies under the other key')
        if len(self._genuine) > 3000:
            self._genuine.clear()
        self._genuine[key] = wire
        return wire

    def build(self, p, bs, cs, size='mix'):
        """packet description + base seed + case seed -> final wire bytes (genuine packet from the library, then surgery)"""
        pk = Pkt(self.genuine(p, bs, size))
        rng = random.Random(cs)
        base = (pk.signed_portion(), pk.get(pk.sigtypes()[1]))
        region_touched = self.tamper(pk, p, rng)
        if pk.kind == 'I':
            self.fix_digest(pk, p, rng, region_touched)
        final = pk.wire()
        self.cross_check(p, final, base)
        return final

    def tamper(self, pk, p, rng):
        tinfo, tval = pk.sigtypes()
        integ = set(p['integ'])
        if 'name' in integ:
            comps = split_name(pk.get(T_NAME))
            idxs = [i for i, c in enumerate(comps) if comp_type(c) != T_DIGESTCOMP]
            i = rng.choice(idxs)
            v, t = comp_value(comps[i]), comp_type(comps[i])
            mode = rng.choice(('flip', 'flip', 'grow', 'type', 'drop', 'add'))
            if mode == 'flip' and v:
                comps[i] = comp(flip(v, rng), t)
            elif mode == 'type':
                comps[i] = comp(v, 0x36 if t == 8 else 8)
            elif mode == 'drop' and len(idxs) >= 2 and not (i == len(comps) - 1 and comp_type(comps[i - 1]) == T_DIGESTCOMP):
                del comps[i]                   # (never the only component behind a digest component: "mid" stays "mid")
            elif mode == 'add':
                comps.insert(i, comp(rng.randbytes(rng.randint(0, 3))))
            else:
                comps[i] = comp(v + rng.randbytes(1), t)
            pk.put(T_NAME, b''.join(comps))
        if 'content' in integ:
            if pk.kind == 'I':
                v = pk.get(T_APPPARAM)
                mode = rng.choice(('flip', 'grow', 'shrink'))
                if mode == 'flip' and v:
                    v = flip(v, rng)
                elif mode == 'shrink' and len(v) >= 2:
                    v = v[:-1]
                else:
                    v = v + rng.randbytes(1)
                pk.put(T_APPPARAM, v)
            else:
                mode = rng.choice(('flip', 'flip', 'grow', 'shrink', 'meta', 'dropmeta', 'dropcontent'))
                v = pk.get(T_CONTENT)
                if mode == 'flip' and v:
                    pk.put(T_CONTENT, flip(v, rng))
                elif mode == 'shrink' and v and len(v) >= 2:
                    pk.put(T_CONTENT, v[:-1])
                elif mode == 'dropcontent' and v is not None:
                    pk.remove(T_CONTENT)
                elif mode == 'dropmeta' and pk.get(T_META) is not None:
                    pk.remove(T_META)
                elif mode == 'meta' and pk.get(T_META):
                    pk.put(T_META, flip(pk.get(T_META), rng, pos=len(pk.get(T_META)) - 1))   # last value byte of MetaInfo
                elif v is not None:
                    pk.put(T_CONTENT, v + rng.randbytes(1))
                else:
                    pk.kids.insert(pk.idx(T_NAME) + (2 if pk.get(T_META) is not None else 1), [T_CONTENT, rng.randbytes(1)])
        if 'siginfo' in integ:
            info = pk.get(tinfo)
            els = [[t, bytes(info[b:e])] for t, a, b, e in st.read_elements(info)]
            extras = [i for i, x in enumerate(els) if x[0] in (T_SIGNONCE, T_SIGTIME, T_SIGSEQ)]
            mode = rng.choice(('unknown', 'extra', 'extra', 'dropextra', 'loc'))
            if mode == 'extra' and extras:
                i = rng.choice(extras)
                els[i][1] = flip(els[i][1], rng)
            elif mode == 'dropextra' and extras:
                del els[rng.choice(extras)]
            elif mode == 'loc' and p['loc'] in ('Kext', 'digest'):
                i = [k for k, x in enumerate(els) if x[0] == T_KEYLOC][0]
                v = els[i][1]
                if len(v) > 2 and v[-1:] != b'' and st.read_elements(v)[-1][3] - st.read_elements(v)[-1][2] > 0 and p['loc'] == 'digest':
                    els[i][1] = flip(v, rng, pos=len(v) - 1)
                elif p['loc'] == 'Kext':
                    # append a component to the locator name: still a name under K
                    t0, a0, b0, e0 = st.read_elements(v)[0]
                    els[i][1] = st.write_tlv([(T_NAME, v[b0:e0] + comp(b'+'))])
                else:
                    els.append([0xf0, b'x03'])
            else:
                els.append([rng.choice((0xf0, 0x3e8, 0xfffe)), rng.randbytes(rng.randint(0, 3))])   # unknown, non-critical
            pk.put(tinfo, st.write_tlv([(t, v) for t, v in els]))
        for tm in VALUE_TAMPERS:
            if tm not in integ:
                continue
            v = pk.get(tval)
            if tm == 'sv_subst':
                mode = rng.choice(('flip', 'first', 'last', 'random'))
                if mode == 'random':
                    nv = rng.randbytes(len(v))
                    v = nv if nv != v else flip(v, rng)
                else:
                    v = flip(v, rng, pos={'first': 0, 'last': len(v) - 1}.get(mode))
                pk.put(tval, v)
            elif tm == 'sv_trunc':
                keep = rng.choice((len(v) - 1, len(v) - 1, len(v) // 2, 1))
                pk.put(tval, v[:max(1, min(keep, len(v) - 1))])
            elif tm == 'sv_long':
                pk.put(tval, v + rng.choice((b'\x00', rng.randbytes(1), v[-1:], rng.randbytes(rng.randint(2, 40)))))
            elif tm == 'sv_empty':
                pk.put(tval, b'')
            else:
                pk.remove(tval)
        return bool(integ - {'name'})

    def fix_digest(self, pk, p, rng, region_touched):
        comps = split_name(pk.get(T_NAME))
        where = [i for i, c in enumerate(comps) if comp_type(c) == T_DIGESTCOMP]
        region = pk.digest_region()
        want = p['digest']
        if want == 'absent':
            comps = [c for c in comps if comp_type(c) != T_DIGESTCOMP]
        elif not where:
            # an Interest without parameters: the library put no digest component, a "wrong" one is added
            whole = b''.join(pk.enc(i) for i in range(len(pk.kids)))
            d = rng.choice((rng.randbytes(32), hashlib.sha256(b'').digest(), hashlib.sha256(whole).digest(), bytes(32)))
            pos = len(comps) if p['dpos'] == 'end' else rng.randrange(len(comps))
            comps.insert(pos, comp(d, T_DIGESTCOMP))
        elif want == 'correct':
            if region_touched:
                comps[where[0]] = comp(hashlib.sha256(region).digest(), T_DIGESTCOMP)
        else:
            good = hashlib.sha256(region).digest()
            cur = comp_value(comps[where[0]])
            cands = [flip(good, rng), flip(good, rng, pos=31), bytes(32), hashlib.sha256(b'').digest(),
                     hashlib.sha256(pk.get(T_APPPARAM)).digest(), rng.randbytes(32)]
            if region_touched and cur != good:
                cands += [cur, cur, cur]                       # stale: the digest of the packet before tampering
            d = rng.choice([c for c in cands if c != good])
            comps[where[0]] = comp(d, T_DIGESTCOMP)
        pk.put(T_NAME, b''.join(comps))

    def cross_check(self, p, final, base):
        d = describe(final, self.K)
        want = {k: p[k] for k in ('kind', 'decl', 'params', 'digest', 'dpos')}
        if p['alg'] != 'none':
            want['loc'] = p['loc']
        got = {k: d[k] for k in want}
        if 'content' in p['integ'] and p['kind'] == 'I':
            # tampering with empty parameters can only add bytes: "empty" / "nonempty" is the class before tampering
            want['params'] = got['params'] = (d['params'] != 'absent')
        if got != want:
            raise MachineryError('valkit built %s for %s (%s)' % (got, want, final[:64].hex()))
        sv_state = ('absent' if 'sv_absent' in p['integ'] else 'empty' if 'sv_empty' in p['integ']
                    else 'absent' if p['alg'] == 'none' else 'present')
        if d['sv'] != sv_state:
            raise MachineryError('valkit: SignatureValue is %s, wanted %s' % (d['sv'], sv_state))
        same = (d['portion'], d['value']) == base
        if same != (not p['integ']):
            raise MachineryError('valkit: tamper %s left the signed portion / value %s' % (sorted(p['integ']), 'unchanged' if same else 'changed'))

    # -- checkers
    def cert(self, fn, ckey):
        from ndn.app_support.security_v2 import new_cert
        from ndn.security.signer import DigestSha256Signer
        k = (fn, ckey)
        if k not in self._certs:
            signer = self.real_signer(fn, ckey, self.K) if ckey != 'X' else DigestSha256Signer()
            _, wire = new_cert(self.K, comp(b'x03'), self.keys.checker_bits(fn, ckey), signer,
                               datetime(2020, 1, 1), datetime(2040, 1, 1))
            self._certs[k] = bytes(wire)
        return self._certs[k]

    def base_checker(self, c):
        from ndn.security import validator as v
        from ndn.encoding import Name
        k = (c['fn'], c.get('ckey', 'A'), c.get('via', 'key'))
        obj = self._checkers.get(k)
        if obj is None:
            fn = c['fn']
            if fn == 'digest':
                obj = v.sha256_digest_checker
            elif fn == 'params':
                obj = v.params_sha256_checker
            elif fn.startswith('v_'):
                f = {'v_rsa': v.verify_rsa, 'v_ecdsa': v.verify_ecdsa, 'v_hmac': v.verify_hmac, 'v_ed': v.verify_ed25519}[fn]
                key = self.keys.pubobj(fn[2:], c['ckey'])
                obj = lambda sig, f=f, key=key: f(key, sig)                # noqa: E731
            else:
                cls = {'rsa': v.RsaChecker, 'ecdsa': v.EccChecker, 'hmac': v.HmacChecker, 'ed': v.Ed25519Checker}[fn]
                if c.get('via', 'key') == 'cert':
                    obj = cls.from_cert(self.cert(fn, c['ckey']))
                else:
                    form = self.rng.choice(('uri', 'list', 'wire'))       # every NonStrictName form of the key name
                    kn = self.kuri if form == 'uri' else list(self.K) if form == 'list' else Name.to_bytes(self.K)
                    obj = cls.from_key(kn, self.keys.checker_bits(fn, c['ckey']))
            self._checkers[k] = obj
        return obj

    def checker(self, c, top=True):
        """checker object for a description; the top-level members of a union are wrapped to count invocations"""
        from ndn.security.validator import union_checker
        if c['fn'] != 'union':
            return self.base_checker(c)
        key = 'U' + json.dumps(c, sort_keys=True) + ('T' if top else 'N')
        obj = self._checkers.get(key)
        if obj is None:
            members = [self.checker(m, top=False) for m in c['mem']]
            if top:
                members = [self._counted(i, m) for i, m in enumerate(members)]
            obj = union_checker(*members)
            if len(self._checkers) > 20000:
                self._checkers.clear()
            self._checkers[key] = obj
        return obj

    def _counted(self, i, member):
        calls = self.calls

        async def counted(name, sig):
            calls.append(i)
            return await member(name, sig)
        return counted

    # -- one case
    def parse(self, wire):
        """-> (name, SignaturePtrs) through the library's own parser, or ('parse-error', text)"""
        from ndn.encoding import parse_data, parse_interest
        try:
            r = parse_interest(wire) if wire[0] == T_INT else parse_data(wire)
        except Exception as e:  # noqa
            return None, '%s: %s' % (type(e).__name__, e)
        return r[0], r[3]

    def await_now(self, chk, name, sig):
        """await chk(name, sig): the checkers never suspend, so the coroutine is stepped directly; should one suspend,
        the call is repeated as a task on the virtual loop (the checkers are pure)"""
        coro = chk(name, sig)
        try:
            coro.send(None)
        except StopIteration as e:
            return e.value
        coro.close()
        del self.calls[:]
        return self.sess.call(chk(name, sig))

    def observe(self, c, name, sig):
        chk = self.checker(c)
        del self.calls[:]
        try:
            if c['fn'].startswith('v_'):
                r = chk(sig)
            else:
                r = self.await_now(chk, name, sig)
        except ValueError:
            v = 'raiseV'
        except TypeError:
            v = 'raiseT'
        except Exception as e:  # noqa
            v = 'raise_' + type(e).__name__
        else:
            v = 'accept' if r is True else 'reject' if r is False else 'other_' + type(r).__name__
        calls = list(self.calls)
        if c['fn'] == 'union' and calls != list(range(len(calls))):
            v += '_order%s' % ''.join(map(str, calls[:6]))        # members are awaited in the order given, once each
        return {'v': v, 'calls': len(calls) if c['fn'] == 'union' else 0}


# ---------------------------------------------------------------------------------------------- naming cases

def fn_name(c):
    n = FN_NAMES.get(c['fn'], c['fn'])
    if c['fn'] in KEYTYPES:
        n += '.from_cert' if c.get('via') == 'cert' else '.from_key'
    return n


def integ_class(p):
    return '+'.join(sorted(p['integ'])) or 'intact'


def case_class(c, p):
    fn = c['fn']
    if fn in KEYTYPES or fn.startswith('v_'):
        T = fn[2:] if fn.startswith('v_') else fn
        if p['decl'] == 'none':
            return 'unsigned-packet'
        if fn in KEYTYPES:
            if p['loc'] not in ('K', 'Kext'):
                return 'keylocator-%s' % p['loc']
            if p['decl'] != T:
                return 'announced-%s-made-by-%s' % (p['decl'], p['alg'])
            if c['ckey'] == 'X':
                return 'checker-key-of-other-algorithm'
        if p['alg'] != T:
            return 'value-made-by-%s' % p['alg']
        if p['skey'] != c['ckey']:
            return 'wrong-key/' + integ_class(p)
        return ('genuine' if not p['integ'] else 'tampered-' + integ_class(p)) + ('/locator-under-K' if p['loc'] == 'Kext' and fn in KEYTYPES else '')
    if fn == 'digest':
        if p['decl'] != 'digest':
            return 'announced-%s/%s' % (p['decl'], integ_class(p))
        return 'digest-announced-made-by-%s/%s' % (p['alg'], integ_class(p))
    if fn == 'params':
        return '%s-params-%s-digest-%s-%s' % ('interest' if p['kind'] == 'I' else 'data', p['params'], p['digest'], p['dpos'])
    nested = any(m['fn'] == 'union' for m in c['mem'])
    return 'members-%d%s' % (len(c['mem']), '-nested' if nested else '')


def signature(c, p, exp, obs):
    e = exp['v'] if exp['v'] != obs['v'] else '%s-calls%d' % (exp['v'], exp['calls'])
    o = obs['v'] if exp['v'] != obs['v'] else '%s-calls%d' % (obs['v'], obs['calls'])
    return 'X03/%s/%s/%s->%s' % (fn_name(c), case_class(c, p), e, o)


# ---------------------------------------------------------------------------------------------- random cases (stage C)

def rand_packet(rng, aim=None):
    """Random well-formed packet description.  aim = a key-based / verify checker description the packet should be
    'about' (announces its algorithm, names its key, signed with its key) before random deviations are applied."""
    kind = rng.choice('ID')
    alg = rng.choice(('none', 'digest', 'rsa', 'ecdsa', 'hmac', 'ed', 'rsa', 'ecdsa', 'hmac', 'ed'))
    skey = rng.choice('AAB')
    loc = rng.choice(('K', 'K', 'K', 'Kext', 'Kext', 'Kpre', 'other', 'absent', 'digest', 'empty'))
    if aim is not None and rng.random() < 0.75:
        alg = aim['fn'][2:] if aim['fn'].startswith('v_') else aim['fn']
        skey = aim['ckey'] if aim['ckey'] in 'AB' and rng.random() < 0.8 else rng.choice('AB')
        loc = rng.choice(('K', 'K', 'Kext')) if rng.random() < 0.8 else loc
    if alg == 'none':
        decl, loc, skey = 'none', 'absent', 'A'
        integ = set(t for t in ('name', 'content') if rng.random() < 0.2)
    else:
        decl = alg if rng.random() < 0.8 else rng.choice(('digest', 'rsa', 'ecdsa', 'hmac', 'ed', 'unknown'))
        if alg == 'digest':
            skey = 'A'
        integ = set()
        if rng.random() < 0.5:
            pool = list(SIGNED_TAMPERS) + [rng.choice(VALUE_TAMPERS)]
            integ = set(rng.sample(pool, rng.choice((1, 1, 1, 2, 2, 3))))
    params = digest = 'absent'
    dpos = 'none'
    if kind == 'I':
        params = rng.choice(('empty', 'nonempty', 'nonempty')) if alg != 'none' else rng.choice(('absent', 'empty', 'nonempty', 'nonempty'))
        if params == 'absent':
            digest = rng.choice(('absent', 'absent', 'wrong'))
            integ.discard('content')
        else:
            digest = rng.choice(('correct', 'correct', 'correct', 'wrong', 'absent'))
        dpos = 'none' if digest == 'absent' else rng.choice(('end', 'end', 'mid'))
    return {'kind': kind, 'decl': decl, 'alg': alg, 'skey': skey, 'loc': loc, 'integ': sorted(integ),
            'params': params, 'digest': digest, 'dpos': dpos}


def rand_checker(rng, depth=0, in_union=False):
    x = rng.random()
    if x < 0.22 and depth < 2:
        return {'fn': 'union', 'ckey': 'A', 'via': 'key',
                'mem': [rand_checker(rng, depth + 1, True) for _ in range(rng.choice((0, 1, 2, 2, 3, 3, 4)))]}
    if x < 0.32:
        return {'fn': 'digest', 'ckey': 'A', 'via': 'key', 'mem': []}
    if x < 0.42:
        return {'fn': 'params', 'ckey': 'A', 'via': 'key', 'mem': []}
    if x < 0.54 and not in_union:
        return {'fn': 'v_' + rng.choice(KEYTYPES), 'ckey': rng.choice('AAB'), 'via': 'key', 'mem': []}
    return {'fn': rng.choice(KEYTYPES), 'ckey': rng.choice('AAAABBX'), 'via': rng.choice(('key', 'key', 'cert')), 'mem': []}


def first_keyed(c):
    """a key-based description inside c (to aim packets at), or None"""
    if c['fn'] in KEYTYPES or c['fn'].startswith('v_'):
        return c
    for m in c.get('mem', ()):
        k = first_keyed(m)
        if k is not None:
            return k
    return None


KEY_NAMES = ('/x03/alice/KEY/%AA%01', '/k/1', '/x03/site/dept/bob/KEY/%00', '/a/KEY/54=%01', '/x03/KEY/k1', '/8=x/KEY/%3D')
