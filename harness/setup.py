"""MANIFEST.setup_cmd: build what the checks need from files on disk only (offline).
Nothing is compiled: the specs are parsed with SANY so that a broken module is a setup failure,
and build/ + evidence/ are created."""
import os, sys, glob
from concurrent.futures import ThreadPoolExecutor
from harness import tlc


def run():
    os.makedirs(tlc.BUILD, exist_ok=True)
    os.makedirs(os.path.join(tlc.VERIF, 'evidence', 'replay'), exist_ok=True)
    mods = sorted(os.path.basename(p)[:-4] for p in glob.glob(os.path.join(tlc.SPEC, '*.tla')))
    bad = []
    with ThreadPoolExecutor(8) as ex:
        for m, (ok, out) in zip(mods, ex.map(tlc.sany, mods)):
            print('SANY %-24s %s' % (m, 'ok' if ok else 'FAILED'))
            if not ok:
                bad.append(m)
                print(out[-2000:])
    try:
        import ndn  # noqa
    except Exception as e:
        print('cannot import ndn from the repository: %r' % e)
        return 1
    if bad:
        print('WARNING: modules that do not parse: %s (their checks will exit 2)' % bad)
    return 0
