"""X03 part (c): life cycle of UdpFace / DummyFace (ndn/transport/udp_face.py, dummy_face.py, face.py) against
spec/FaceLife.tla.

A  TLC exhaustive on FaceLife for Kind = "udp" and "dummy" (invariants, two action properties, witnesses).
B  every transition of the two state graphs (transition cover) + random walks replayed into the real face objects
   on the virtual loop; after every action the observable variables are compared.
   UdpFace runs over a scripted datagram endpoint: loop.create_datagram_endpoint is replaced, the transport object
   records sendto / close and behaves like asyncio's (sendto on a closed transport is dropped silently, close()
   reports connection_lost(None) once, through call_soon); the harness plays the event loop's part by calling the
   protocol object the face registered (datagram_received / error_received).
"""
import asyncio as aio
import errno, json, logging, os, struct, time

from harness import tlc, graph
from harness.vloop import Session

logging.getLogger('ndn').setLevel(logging.CRITICAL)

INVS = ['TypeOK', 'OneCallbackPerDatagram', 'RunningMeansOpen', 'NoProtocolError', 'TransportOpenMeansRunning', 'ReturnedMeansClosed',
        'WaitingMeansOpen', 'NoWireWithoutTransport']
PROPS = ['ShutdownIdempotent', 'ClosedTransportSendsNothing']
VIEW = ('running', 'cb', 'wire', 'dropped', 'runst', 'last', 'opened')
BOUNDS = {True: {'MaxIn': 2, 'MaxOut': 2, 'MaxOpen': 2}, False: {'MaxIn': 3, 'MaxOut': 2, 'MaxOpen': 3}}     # quick / thorough


def light_graph(module, cfgpath, tag, timeout=900, parse_states=True):
    """harness.graph.dump with the light JVM settings and one worker (small graphs: the JVM start dominates)"""
    import shutil, tempfile
    from harness import tlaval
    d = tempfile.mkdtemp(prefix='dot-%s-' % tag, dir=tlc.BUILD)
    base = os.path.join(d, 'g')
    try:
        r = tlc.run(module, cfgpath, workers=1, heavy=False, timeout=timeout, extra=['-fp', '0', '-dump', 'dot,actionlabels', base], tag=tag)     # (-fp: state ids do not vary from run to run)
        g = graph.Graph()
        g.tlc = r
        if r.violated and not os.path.exists(base + '.dot'):
            return g
        with open(base + '.dot') as f:
            for line in f:
                line = line.rstrip('\n')
                m = graph._RE_EDGE.match(line)
                if m:
                    a, b, lab = m.group(1), m.group(2), graph._unescape(m.group(3))
                    i = lab.find('(')
                    act, args = (lab, []) if i < 0 else (lab[:i], tlaval.parse_args(lab[i + 1:lab.rindex(')')]))
                    g.edges[a].append((act, args, b))
                    g.n_edges += 1
                    continue
                m = graph._RE_NODE.match(line)
                if m:
                    sid, lab, filled = m.group(1), graph._unescape(m.group(2)), m.group(3)
                    g.state[sid] = tlaval.parse_state(lab) if parse_states else lab     # (raw: parse on demand)
                    if filled:
                        g.init.append(sid)
        return g
    finally:
        shutil.rmtree(d, ignore_errors=True)


def sample_packet():
    from ndn.encoding import make_interest, InterestParam
    return bytes(make_interest('/x03/face/%d' % 7, InterestParam(nonce=0x0a0b0c0d, lifetime=1000)))


def datagram(kind, n):
    pkt = sample_packet()
    if kind == 'good':
        return pkt if n % 2 else bytes(make_big())
    if kind == 'typeonly':
        return b'\x05'
    if kind == 'empty':
        return b''
    if kind == 'trunc':
        return b'\xfd\x00' if n % 2 else b'\xfe\x00\x00'
    return pkt + b'\x00'            # trailing


def make_big():
    from ndn.encoding import make_data, MetaInfo
    return make_data('/x03/face/big', MetaInfo(freshness_period=1), bytes(300))


class _Transport:
    def __init__(self, loop, proto, log):
        self.loop, self.proto, self.log = loop, proto, log
        self.closed = False

    def sendto(self, data, addr=None):
        if self.closed:
            self.log['dropped'] += 1          # asyncio: silently dropped on a closing transport
        else:
            self.log['wire'].append(bytes(data))

    def close(self):
        if not self.closed:
            self.closed = True
            self.loop.call_soon(self.proto.connection_lost, None)

    def is_closing(self):
        return self.closed

    def abort(self):
        self.close()

    def get_extra_info(self, name, default=None):
        return default


class FaceRun:
    def __init__(self, kind):
        self.kind = kind
        self.sess = Session()
        self.sess.__enter__()
        self.log = {'wire': [], 'dropped': 0}
        self.cbs = []
        self.sent = []
        self.fail_next = False
        self.transport = None
        self.proto = None
        self.runtask = None
        self.runst = 'idle'
        self.last = 'ok'
        self.nin = 0
        self.problems = []
        loop = self.sess.loop

        async def fake_endpoint(factory, local_addr=None, remote_addr=None, **kw):
            if self.fail_next:
                raise OSError(errno.ENETUNREACH, 'Network is unreachable')
            proto = factory()
            tr = _Transport(loop, proto, self.log)
            proto.connection_made(tr)
            self.transport, self.proto = tr, proto
            return tr, proto
        loop.create_datagram_endpoint = fake_endpoint

        async def callback(typ, data):
            self.cbs.append((typ, bytes(data)))
        if kind == 'udp':
            from ndn.transport.udp_face import UdpFace
            self.face = UdpFace('127.0.0.1', 6363)
        else:
            from ndn.transport.dummy_face import DummyFace

            async def test_func(face):
                return None
            self.face = DummyFace(test_func)
        self.face.callback = callback

    def close(self):
        self.sess.__exit__(None, None, None)

    def _call(self, fn):
        try:
            fn()
            self.last = 'ok'
        except (IndexError, struct.error) as e:
            self.last = 'ParseError'
        except ValueError as e:
            self.last = 'ParseError' if type(e) is ValueError else type(e).__name__
        except Exception as e:  # noqa
            self.last = type(e).__name__
        self.sess.loop.settle()

    def apply(self, act, args):
        face, sess = self.face, self.sess
        n_err = len(sess.loop.errors)
        if act in ('OpenOk', 'OpenFail'):
            self.fail_next = act == 'OpenFail'
            self._call(lambda: sess.call(face.open()))
            self.fail_next = False
            if act == 'OpenOk' and self.kind == 'udp':
                self.runst, self.runtask = 'idle', None      # (a run() of the previous connection has returned)
        elif act == 'Send':
            payload = sample_packet() + bytes([len(self.sent)])
            self.sent.append(payload)
            self._call(lambda: face.send(payload))
        elif act == 'Shutdown':
            self._call(face.shutdown)
        elif act == 'Run':
            def go():
                self.runtask = sess.spawn(face.run())
                sess.loop.settle()
                if self.runtask.done() and self.runtask.exception() is not None:
                    e = self.runtask.exception()
                    self.runtask = None
                    raise e
            self._call(go)
        elif act == 'Datagram':
            self.nin += 1
            data = datagram(args[0], self.nin)
            before = len(self.cbs)
            self._call(lambda: self.proto.datagram_received(data, ('127.0.0.1', 6363)))
            self._check_cb(before, data, args[0] in ('good', 'typeonly', 'trailing'))
        elif act == 'Input':
            self.nin += 1
            data = datagram(args[0], self.nin)
            before = len(self.cbs)
            self._call(lambda: sess.call(face.input_packet(data)))
            self._check_cb(before, data, args[0] == 'good')
        elif act == 'ErrorReceived':
            self._call(lambda: self.proto.error_received(OSError(errno.ECONNREFUSED, 'Connection refused')))
        else:
            raise tlc.MachineryError('unknown action %s' % act)
        for e in sess.loop.errors[n_err:]:
            self.problems.append('loop error: %s %r' % (e.get('message'), e.get('exception')))

    def _check_cb(self, before, data, due):
        new = self.cbs[before:]
        if due and len(new) == 1:
            from harness import strict_tlv
            typ = strict_tlv.parse_var(data, 0, shortest=False)[0]
            if new[0] != (typ, data):
                self.problems.append('callback got (%r, %d bytes), the datagram was type %d, %d bytes' % (new[0][0], len(new[0][1]), typ, len(data)))

    def project(self):
        face = self.face
        if self.runtask is not None:
            self.runst = 'returned' if self.runtask.done() else 'waiting'
        if self.kind == 'udp':
            wire = len(self.log['wire'])
            if self.log['wire'] != [p for p in self.sent if p in self.log['wire']]:
                self.problems.append('payloads on the transport differ from the payloads sent')
        else:
            wire = len([p for p in self.sent])
            if bytes(face.output_buf) != b''.join(self.sent):
                self.problems.append('output_buf is not the concatenation of the payloads sent')
        return {'running': face.running is True, 'cb': len(self.cbs), 'wire': wire, 'dropped': self.log['dropped'],
                'runst': self.runst, 'last': self.last,
                'opened': hasattr(face, 'handler') if self.kind == 'udp' else None}


def expected(st, kind):
    e = {k: st[k] for k in VIEW}
    if kind != 'udp':
        e['opened'] = None
    return e


def differs(st, kind, exp, got):
    """fields in which the face does not conform to model state st (strict: the configurations have Dev = {}, the
    repaired behaviour of commit c0254c0 is the only one accepted)"""
    return sorted(k for k in exp if exp[k] != got.get(k))


def cfg(name, kind, quick, invs=INVS, props=PROPS, witnesses=True):
    p = os.path.join(tlc.BUILD, name + '.cfg')
    consts = {'Kind': '"%s"' % kind, 'Dev': '{}'}
    consts.update(BOUNDS[bool(quick)])
    tlc.write_cfg(p, constants=consts, invariants=invs, properties=props,
                  constraints=['MarkW'] if witnesses else [], postcondition='PostW' if witnesses else None)
    return p


def replay_path(kind, g, init, path):
    run = FaceRun(kind)
    try:
        exp, got = expected(g.state[init], kind), run.project()
        if differs(g.state[init], kind, exp, got):
            return 0, ('Init', [], exp, got, [], differs(g.state[init], kind, exp, got))
        for i, (act, args, dst) in enumerate(path):
            run.apply(act, list(args))
            exp, got = expected(g.state[dst], kind), run.project()
            if differs(g.state[dst], kind, exp, got) or run.problems:
                return i + 1, (act, list(args), exp, got, list(run.problems), differs(g.state[dst], kind, exp, got))
        return len(path), None
    finally:
        run.close()


def face_class(kind):
    return 'UdpFace' if kind == 'udp' else 'DummyFace'


def check(ctx):
    t0 = time.perf_counter()
    for kind in ('udp', 'dummy'):
        # one TLC run per kind serves A (invariants, action properties, witnesses; one worker) and B (state graph)
        g = light_graph('FaceLife', cfg('x03-face-' + kind, kind, ctx.quick), 'x03faceg')
        r = g.tlc
        ctx.add_tlc('FaceLife Kind=%s' % kind, r)
        if r.violated == 'postcondition' or 'VACUOUS' in r.out:
            raise tlc.MachineryError('vacuous: a witness of FaceLife (%s) is not reachable:\n%s' % (kind, r.out[-1200:]))
        if r.violated:
            ctx.violation('X03/spec/FaceLife/%s' % r.violated, 'TLC: %s violated in FaceLife (%s)' % (r.violated, kind), {'kind': 'spec', 'trace': r.errtrace})
            continue
        if 'B' not in ctx.stages:
            continue
        taken = {a for es in g.edges.values() for a, _, _ in es}
        want = {'OpenOk', 'Send', 'Shutdown', 'Run'} | ({'OpenFail', 'Datagram', 'ErrorReceived'} if kind == 'udp' else {'Input'})
        if want - taken:
            raise tlc.MachineryError('vacuous: FaceLife (%s) actions never taken: %s' % (kind, sorted(want - taken)))
        if kind == 'udp' and not any(a == 'ErrorReceived' and g.state[s]['closeDone'] for s, es in g.edges.items() for a, _, _ in es):
            raise tlc.MachineryError('vacuous: FaceLife has no error_received after the close future was resolved')
        paths = graph.edge_cover_paths(g, max_len=40, rng=ctx.rng)
        paths += graph.random_paths(g, ctx.pick(100, 1500), 25, ctx.rng)
        steps = 0
        for init, path in paths:
            n, bad = replay_path(kind, g, init, path)
            steps += n
            ctx.traces += 1
            acts = [a for a, _, _ in path]
            if len(path) >= 5 and 'OpenOk' in acts and 'Shutdown' in acts:
                ctx.nt(['face', kind, [[a, list(x)] for a, x, _ in path]])
            if bad:
                act, args, exp, got, problems, diffs = bad
                sig = 'X03/%s/%s%s/%s' % (face_class(kind), act, ('[%s]' % args[0]) if args else '',
                                          '+'.join('%s:%s->%s' % (k, exp[k], got.get(k)) for k in diffs) or 'internal-error')
                ctx.violation(sig, 'face B: after %s%s the model has %s, the face %s %s' % (act, args, json.dumps(exp), json.dumps(got), problems),
                              {'kind': 'face', 'face': kind, 'path': [[a, list(x)] for a, x, _ in path[:n]]})
        ctx.evaluations += steps
        ctx.extra['face_B_%s_paths' % kind] = len(paths)
        ctx.extra['face_B_%s_steps' % kind] = steps
        ctx.note('face %s: A %d states, %d statements + %d action properties hold, witnesses reachable; B %d transitions covered, '
                 '%d paths / %d steps replayed and compared (t=%.0fs)' % (face_class(kind), r.distinct, len(INVS), len(PROPS), g.n_edges,
                                                                             len(paths), steps, time.perf_counter() - t0))
    base_face_facts(ctx)


def base_face_facts(ctx):
    """face.py itself: the abstract base cannot be instantiated, a new face is not running"""
    from ndn.transport.face import Face
    from ndn.transport.udp_face import UdpFace
    ctx.evaluations += 2
    try:
        Face()
    except TypeError:
        pass
    else:
        ctx.violation('X03/Face/instantiate-abstract/TypeError->ok', 'Face() can be instantiated', {'kind': 'face-base'})
    if UdpFace().running is not False or Face.running is not False:
        ctx.violation('X03/Face/new/running:False->True', 'a new face says it is running', {'kind': 'face-base'})


def replay(ctx, obj):
    if 'path' not in obj:
        print(json.dumps(obj, indent=1))
        return 0
    run = FaceRun(obj['face'])
    try:
        print('Init -> %s' % json.dumps(run.project()))
        for act, args in obj['path']:
            run.apply(act, args)
            print('%s%s -> %s %s' % (act, args, json.dumps(run.project()), run.problems))
    finally:
        run.close()
    return 1
