"""AppLife.tla: TLC on the design, then every transition of its state graph replayed into both front-ends
(harness/lifekit.py) with the observable part of the state compared after every action.

Used three ways (the same executions, different projections):
  * C17 - variables `cmds` / `attached`: routes declared before connecting are registered once per connection,
          also when an earlier connection went away in the middle of the auto-registration;
  * C03 - variables `pend` / `out`: Interests pending at shutdown end as cancelled, Interests expressed
          without a connection are refused, nothing else;
  * X01 - everything (main_loop result, after_start handling), beyond the listed properties.
"""
import json, os

from harness import tlc, graph, lifekit

INVS = ['TypeOK', 'FaceIffRunning', 'NoPendingWhenDown', 'ReturnedMeansQuiet', 'OncePerConnection',
        'AfterStartAfterRoutes', 'ClosedIffOpenFailed', 'HandlersPresent', 'ResultOk']
WITNESSES = ['W_ReconnectAfterAbandon', 'W_AfterOnDownFace', 'W_CancelledDraining', 'W_ExpressRefused',
             'W_CancelledAtShutdown']
ACTIONS = ['StartMain', 'OpenFail', 'OpenOk', 'Reply', 'AfterFinish', 'AfterRaise', 'Down', 'DownError', 'CancelDraining',
           'Express', 'Satisfy']
VIEWS = {'C17': ('cmds', 'attached', 'problems'),
         'C03': ('pend', 'out'),
         'X01': ('done', 'res', 'face', 'cmds', 'after', 'pend', 'out', 'attached', 'bg', 'problems')}


def cfg(name, front, nroutes, maxconn, maxexp, invs=INVS, props=(), spec='Spec'):
    p = os.path.join(tlc.BUILD, name + '.cfg')
    tlc.write_cfg(p, spec=spec, constants={'Front': '"%s"' % front, 'NRoutes': nroutes, 'MaxConn': maxconn,
                                           'MaxExpress': maxexp},
                  invariants=invs, properties=props)
    return p


def stage_a(ctx, quick):
    for front in ('v2', 'legacy'):
        for label, (nr, mc, me) in (('2 routes, 2 connections, 2 Interests', (2, 2, 2)),) + \
                (() if quick else (('3 routes, 3 connections, 3 Interests', (3, 3, 3)),)):
            r = tlc.run('AppLife', cfg('life-A-%s-%d' % (front, nr), front, nr, mc, me), coverage=True,
                        workers=ctx.pick(4, 16), timeout=1500)
            ctx.add_tlc('AppLife %s: %s' % (front, label), r)
            if r.violated:
                ctx.violation('%s/spec/AppLife/%s' % (ctx.prop, r.violated), 'TLC: %s violated in AppLife (%s)' % (r.violated, label),
                              {'trace': r.errtrace})
            for a in ACTIONS:
                if r.coverage.get(a, (0, 0))[1] == 0:
                    raise tlc.MachineryError('vacuous: AppLife action %s never taken' % a)
        r = tlc.run('AppLife', cfg('life-A-live-' + front, front, 2, 1, 1, invs=[], props=['Returns'], spec='FairSpec'),
                    workers=1, heavy=False, timeout=600)
        ctx.add_tlc('AppLife %s: liveness Returns (1 connection)' % front, r)
        if r.violated:
            ctx.violation('%s/spec/AppLife/Returns' % ctx.prop, 'TLC: temporal property Returns violated', {'trace': r.errtrace})
    for w in WITNESSES:
        r = tlc.run('AppLife', cfg('life-W-' + w, 'legacy', 2, 2, 2, invs=[w]), workers=2, heavy=False, timeout=600)
        if not r.violated:
            raise tlc.MachineryError('vacuous: AppLife witness %s is not reachable' % w)
    ctx.note('AppLife: %d witnesses reachable' % len(WITNESSES))


def diff(exp, got, view):
    return [(k, exp[k], got[k]) for k in view if exp[k] != got[k]]


def replay_path(front, nroutes, g, init, path, view):
    """-> (steps executed, None | (index, action, args, differences))"""
    run = lifekit.LifeRun(front, nroutes)
    replay_path.last_dup = run.dup
    replay_path.last_base = run.base
    replay_path.last_listarg = run.listarg
    try:
        d = diff(lifekit.expected(g.state[init]), run.project(), view)
        if d:
            return 0, (0, 'Init', [], d)
        for i, (act, args, dst) in enumerate(path):
            try:
                run.apply(act, args)
            except Exception as e:  # noqa  - the library (or the stimulus) failed where the model has a transition
                return i, (i + 1, act, args, [('exception', 'none', '%s: %s' % (type(e).__name__, e))])
            d = diff(lifekit.expected(g.state[dst]), run.project(), view)
            if d:
                return i + 1, (i + 1, act, args, d)
        return len(path), None
    finally:
        run.close()


def stage_b(ctx, view_name, quick):
    view = VIEWS[view_name]
    for front in ('v2', 'legacy'):
        for nr, mc, me in ((2, 2, 1),) + (() if quick else ((3, 2, 2),)):
            g = graph.dump('AppLife', cfg('life-B-%s-%d' % (front, nr), front, nr, mc, me, invs=[]), workers=4, tag='life')
            ctx.add_tlc('AppLife graph %s %d routes (%d edges)' % (front, nr, g.n_edges), g.tlc)
            paths = graph.edge_cover_paths(g, max_len=40, rng=ctx.rng, max_paths=ctx.pick(1500, 20000))
            paths += graph.random_paths(g, ctx.pick(150, 3000), 30, ctx.rng)
            nrep = 0
            for init, path in paths:
                if not path:
                    continue
                n, bad = replay_path(front, nr, g, init, path, view)
                nrep += 1
                ctx.traces += 1
                ctx.evaluations += n
                acts = [a for a, _, _ in path]
                if 'OpenOk' in acts and ('Down' in acts or 'AfterRaise' in acts) and len(path) >= 4:
                    ctx.nt(['life', front, nr, [(a, b) for a, b, _ in path]])
                if bad:
                    i, act, args, d = bad
                    var = d[0][0]
                    prev = path[i - 2][0] if i >= 2 else 'Init'
                    sig = '%s/%s/life/%s/%s' % (ctx.prop, front, act, var)
                    ctx.violation(sig, 'AppLife %s: after %s%s (step %d, previous %s) %s is %s, the specification says %s'
                                  % (front, act, tuple(args), i, prev, var, json.dumps(d[0][2]), json.dumps(d[0][1])),
                                  {'kind': 'life', 'front': front, 'nroutes': nr, 'view': view_name, 'dup': getattr(replay_path, 'last_dup', 0), 'base': getattr(replay_path, 'last_base', ''), 'listarg': getattr(replay_path, 'last_listarg', False),
                                   'path': [[a, b] for a, b, _ in path[:i]], 'differences': [list(x) for x in d]})
            ctx.sample({'kind': 'life-path', 'front': front, 'routes': nr, 'actions': [[a, b] for a, b, _ in paths[-1][1][:12]]}, limit=2)
            ctx.note('AppLife replay %s %d routes (%s view): %d states, %d edges, %d paths; %d reconnections ran in a new event loop' %
                     (front, nr, view_name, len(g.state), g.n_edges, nrep, lifekit.LifeRun.fresh_loops))


def replay(ctx, obj):
    run = lifekit.LifeRun(obj['front'], obj['nroutes'], dup=obj.get('dup', 0), base=obj.get('base', ''), listarg=obj.get('listarg', False))
    try:
        for act, args in obj['path']:
            print(act, args)
            run.apply(act, args)
        p = run.project()
        print(json.dumps(p, indent=1))
        print('recorded differences (variable, specification, implementation):', json.dumps(obj['differences']))
        still = [d for d in obj['differences'] if p.get(d[0]) != d[1]]
        print('re-executed on the current tree: %s' % ('still differs' if still else 'agrees with the specification'))
        return 1 if still else 0
    finally:
        run.close()
