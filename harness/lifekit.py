"""Executor for spec/AppLife.tla: one NDNApp (either front-end) whose connection life cycle is driven
stimulus by stimulus on the virtual loop.  After every stimulus the loop is settled and a few
milliseconds pass (register() sleeps 1 ms at a time until the wall clock has moved on), then
`project()` returns the value of every AppLife variable that can be seen from outside.
"""
import asyncio as aio
import inspect

from harness.vloop import Session
from harness import regkit
from harness import strict_tlv as T

from ndn import appv2, app as app1, types as ndn_types, encoding as enc
from ndn.transport.face import Face
from ndn.transport.nfd_registerer import NfdRegister

STEP = 0.005          # virtual seconds that pass after every stimulus
ROUTE = 'r%d'


class LifeFace(Face):
    """open() waits for the harness to decide (ok / connection refused); run() returns when the
    harness ends the stream or shutdown() is called."""
    def __init__(self):
        super().__init__()
        self.out = []
        self.stop = None
        self.openfut = None

    async def open(self):
        self.openfut = aio.get_running_loop().create_future()
        await self.openfut
        self.running = True
        self.stop = aio.get_running_loop().create_future()

    def shutdown(self):
        self.running = False
        if self.stop is not None and not self.stop.done():
            self.stop.set_result(None)

    def send(self, data):
        self.out.append(bytes(data))

    async def run(self):
        await self.stop

    def isLocalFace(self):
        return True


class AfterStart:
    """an after_start coroutine under harness control, with its observable state"""
    def __init__(self, loop):
        self.fut = loop.create_future()
        self.state = 'given'
        self.coro = self._body()

    async def _body(self):
        self.state = 'started'
        try:
            await self.fut
        except aio.CancelledError:
            self.state = 'cancelled'
            raise
        except Exception:
            self.state = 'raised'
            raise
        self.state = 'finished'

    def observe(self):
        if self.state == 'given' and inspect.getcoroutinestate(self.coro) == inspect.CORO_CLOSED:
            return 'closed'
        return self.state


class LifeRun:
    runs = 0
    fresh_loops = 0
    nested = 0

    def __init__(self, front, nroutes, dup=None, base=None, listarg=None):
        self.front = front
        self.nroutes = nroutes
        self.sess = Session()
        self.sess.__enter__()
        self.loop = self.sess.loop
        self.face = LifeFace()
        if front == 'v2':
            self.app = appv2.NDNApp(face=self.face, client_conf={'transport': 'unix:///nonexistent'},
                                    registerer=NfdRegister())
        else:
            self.app = app1.NDNApp(face=self.face, keychain=regkit._Keychain())
        # Every third appv2 run declares its routes below a common prefix /e that is itself declared as a route first and
        # detached again before the first connection: the routes below it stay declared (whether /e itself is still
        # registered after detach_handler is not fixed by the statement: its commands are ignored).
        LifeRun.nested += 1
        if base is None:
            base = '/e' if (front == 'v2' and nroutes >= 1 and LifeRun.nested % 3 == 0) else ''
        self.base = base
        if self.base:
            self.app.route(self.base)(lambda name, app_param, reply, context: None)
        self.listarg = (LifeRun.nested % 2 == 1) if listarg is None else bool(listarg)
        for i in range(1, nroutes + 1):
            # every second run hands the prefix over as a list of components that the caller goes on using (extends it,
            # replaces its first component) as soon as route() has returned: a declared route is a value
            path = (self.base if front == 'v2' else '') + '/' + ROUTE % i
            arg = enc.Name.from_str(path) if self.listarg else path
            if front == 'v2':
                self.app.route(arg)(lambda name, app_param, reply, context: None)
            else:
                self.app.route(arg)(lambda name, param, app_param: None)
            if isinstance(arg, list):
                arg.append(enc.Component.from_str('later'))
                arg[0] = enc.Component.from_str('zz')
        if self.base:
            self.app.detach_handler(self.base)
        self.problems = []
        self.old_errors = []
        # a second declaration for a prefix that is already taken is refused (appv2: ValueError at declaration time) and is
        # therefore not a declared route: the prefix is still registered once per connection. Every second run tries one.
        LifeRun.runs += 1
        if dup is None:
            dup = ((LifeRun.runs // 2) % nroutes + 1) if (nroutes >= 1 and LifeRun.runs % 2 == 0) else 0
        self.dup = dup          # route index declared a second time (0: none); kept in replay objects
        # every third of those runs declares the route, detaches its handler and declares it again (accepted: the prefix is
        # free again) - still one declared route, registered once per connection
        # (recorded as a negative `dup` so that a replay does the same)
        if dup > 0 and front == 'v2' and LifeRun.runs % 6 == 0:
            dup = self.dup = -dup
        if dup < 0:
            self.app.detach_handler(self.base + '/' + ROUTE % -dup)
            self.app.route(self.base + '/' + ROUTE % -dup)(lambda name, app_param, reply, context: None)
            dup = 0
        if dup and front == 'legacy':
            # the legacy front-end attaches the handlers of declared routes when it connects: the second declaration is
            # refused then (the first handler stays) - the other declared routes and after_start are not its business
            self.refused = lambda name, param, app_param: None
            self.app.route('/' + ROUTE % dup)(self.refused)
        elif dup:
            try:
                self.app.route(self.base + '/' + ROUTE % dup)(lambda name, app_param, reply, context: None)
                self.problems.append('a second route() for an occupied prefix was accepted')
            except ValueError:
                pass
        self.main = None
        self.conn = 0
        self.after = None
        self.cmds = []          # (conn, route index, wire)
        self.seen = 0
        self.user = []          # user express tasks
        self.nuser = 0

    def close(self):
        try:
            if self.after is not None:
                self.after.coro.close()
        finally:
            self.sess.__exit__(None, None, None)

    # ---- helpers
    def _run(self, advance=STEP):
        self.loop.settle()
        self.loop.advance_to(self.loop.time() + advance)
        self._scan()

    def _scan(self):
        while self.seen < len(self.face.out):
            w = self.face.out[self.seen]
            self.seen += 1
            try:
                c = regkit.decode_command(w, self.front)
            except regkit.WireError:
                continue            # a user Interest
            if c['verb'] != 'register':
                self.problems.append('unexpected command verb %s' % c['verb'])
                continue
            if self.base and c['prefix'] == self.base:
                # the detached common prefix: registered or not, both are accepted; the forwarder answers it at once so
                # that the commands of the declared routes follow (one command is outstanding at a time)
                c['wire'] = w
                self._deliver(regkit.make_reply('r200', True, c, w))
                self.loop.settle()
                continue
            idx = [i for i in range(1, self.nroutes + 1) if c['prefix'] == self.base + '/' + ROUTE % i]
            if not idx:
                self.problems.append('command for unknown prefix %s' % c['prefix'])
                continue
            c['wire'] = w
            self.cmds.append((self.conn, idx[0], c))

    def _deliver(self, wire):
        typ, _ = T.parse_var(wire)
        box = {}

        async def go():
            try:
                await self.face.callback(typ, wire)
            except BaseException as e:  # noqa
                box['exc'] = e
        self.sess.spawn(go())
        if 'exc' in box:
            self.problems.append('receive raised %r' % (box['exc'],))

    # ---- stimuli (AppLife actions)
    def apply(self, act, args):
        getattr(self, 'do_' + act)(*args)

    def _fresh_loop(self):
        """A later connection runs in a NEW event loop, as NDNApp.run_forever() does (asyncio.run per connection), when the
        old loop has nothing left to run: what the application object keeps must not be tied to the loop that is gone."""
        import asyncio
        old = self.loop
        if any(not t.done() for t in asyncio.all_tasks(old)):
            return
        self.old_errors += list(old.errors)
        t = old.time()
        self.sess.__exit__(None, None, None)
        self.sess = Session(start=t)
        self.sess.__enter__()
        self.loop = self.sess.loop
        LifeRun.fresh_loops += 1

    def do_StartMain(self, a):
        if self.conn >= 1 and LifeRun.runs % 2 == 1:
            self._fresh_loop()
        self.conn += 1
        self.after = AfterStart(self.loop) if a else None
        self.main = self.sess.spawn(self.app.main_loop(self.after.coro if a else None))
        self._run()

    def do_OpenOk(self):
        self.face.openfut.set_result(None)
        self._run()

    def do_OpenFail(self):
        self.face.openfut.set_exception(ConnectionRefusedError('refused'))
        self._run()

    def do_Reply(self, kind):
        conn, idx, c = self.cmds[-1]
        if kind == 'timeout':
            self._run(advance=1.05)
            return
        k = {'ok': 'r200', 'fail': 'r403', 'nack': 'nack'}[kind]
        self._deliver(regkit.make_reply(k, True, c, c['wire']))
        self._run()

    def do_AfterFinish(self):
        self.after.fut.set_result(None)
        self._run()

    def do_AfterRaise(self):
        self.after.fut.set_exception(KeyError('after_start failed'))
        self._run()

    def do_Down(self, kind):
        if kind == 'shutdown':
            self.app.shutdown()
        elif kind == 'eof':
            self.face.stop.set_result(None)       # the transport's run() returns, nobody called shutdown()
        elif kind == 'error':
            self.face.stop.set_exception(ConnectionAbortedError('connection aborted'))   # the transport's run() raises
        else:
            self.main.cancel()
        self._run()

    def do_DownError(self):
        self.do_Down('error')

    def do_CancelDraining(self):
        self.main.cancel()
        self._run()

    def do_Express(self):
        self.nuser += 1
        name = '/user/%d' % self.nuser

        async def go():
            if self.front == 'v2':
                return await self.app.express(name, validator=appv2.pass_all, lifetime=600000)
            return await self.app.express_interest(name, lifetime=600000)
        self.user.append((name, self.sess.spawn(go())))
        self._run()

    def do_Satisfy(self):
        for name, t in self.user:
            if not t.done():
                self._deliver(bytes(enc.make_data(name, enc.MetaInfo(), b'x')))
                break
        self._run()

    # ---- projection onto AppLife's variables
    def project(self):
        p = {}
        if self.main is None:
            p['done'], p['res'] = False, 'none'
        elif not self.main.done():
            p['done'], p['res'] = False, 'none'
        else:
            p['done'] = True
            if self.main.cancelled():
                p['res'] = 'cancelled'
            else:
                e = self.main.exception()
                if e is None:
                    r = self.main.result()
                    p['res'] = 'true' if r is True else 'false' if r is False else 'other:%r' % (r,)
                elif isinstance(e, ConnectionRefusedError):
                    p['res'] = 'openerr'
                elif isinstance(e, ConnectionAbortedError):
                    p['res'] = 'runerr'
                elif isinstance(e, KeyError):
                    p['res'] = 'aftererr'
                else:
                    p['res'] = 'raised:%s' % type(e).__name__
        p['face'] = bool(self.face.running)
        p['cmds'] = [[c, i] for c, i, _ in self.cmds]
        p['after'] = self.after.observe() if self.after is not None else 'absent'
        out = {'data': 0, 'cancel': 0, 'neterr': 0}
        pend = 0
        for name, t in self.user:
            if not t.done():
                pend += 1
            elif t.cancelled():
                out['other:task-cancelled'] = out.get('other:task-cancelled', 0) + 1
            else:
                e = t.exception()
                if e is None:
                    out['data'] += 1
                elif isinstance(e, ndn_types.InterestCanceled):
                    out['cancel'] += 1
                elif isinstance(e, ndn_types.NetworkError):
                    out['neterr'] += 1
                else:
                    k = 'other:' + type(e).__name__
                    out[k] = out.get(k, 0) + 1
        p['pend'] = pend
        p['out'] = out
        # NameTrie hands out its internal path list as the key: convert while iterating
        if self.front == 'v2':
            att = [enc.Name.to_str(list(k)) for k in self.app._fib.iterkeys()]
        else:
            att = [enc.Name.to_str(list(k)) for k, n in self.app._prefix_tree.iteritems() if n.callback is not None]
        if self.front == 'legacy' and getattr(self, 'refused', None) is not None:
            # the declaration that was refused must not have taken the prefix over
            if any(n.callback is self.refused for _, n in self.app._prefix_tree.iteritems()):
                if 'the refused second declaration holds the prefix' not in self.problems:
                    self.problems.append('the refused second declaration holds the prefix')
        pre = self.base + '/r'
        p['attached'] = sorted(int(a[len(pre):]) for a in att if a.startswith(pre))
        p['bg'] = [str(c.get('exception') or c.get('message')) for c in self.old_errors + list(self.loop.errors)]
        p['problems'] = list(self.problems)
        return p


def expected(state):
    """AppLife state (parsed TLC value) -> the same shape as project()"""
    from harness import tlaval
    out = state['out']
    return {'done': state['ml'] == 'ret',
            'res': state['res'] if state['ml'] == 'ret' else 'none',
            'face': bool(state['face']),
            'cmds': [list(x) for x in tlaval.seq(state['cmds'])],
            'after': state['after'],
            'pend': state['pend'],
            'out': {'data': out['data'], 'cancel': out['cancel'], 'neterr': out['neterr']},
            'attached': sorted(state['attached']),
            'bg': [], 'problems': []}
