"""Executor for the consumer side (NdnPit.tla): drives appv2.NDNApp / app.NDNApp on the
virtual loop along a schedule of stimuli and records the observable projection after each."""
import asyncio as aio
import hashlib
import json

from harness.appkit import Session, new_app, deliver, enc, ndn_types, nm
from harness import strict_tlv as st

import contextvars

_CUR_ENTRY = contextvars.ContextVar('verif_cur_entry', default=0)
TICK_MS = 10
DEFAULT_LIFE = 400       # ticks: template lifetime that stands for "no lifetime given"
REASONS = [None, 0, 150, 50, (1 << 32) + 5, (1 << 64) - 1]      # index -> real reason code (index 0 unused)


def lp_wrap(fragment, nack_reason='absent', token=None, extra=False, frag=None, empty_nack=False, odd=False):
    """Build an NDNLPv2 LpPacket with the harness' own writer (independent of the library's encoder).
    Header order follows increasing type number, Fragment last."""
    hdr = []
    if odd:
        hdr.append((0x1e, b'\x01'))                       # unknown, small even type number
        hdr.append((0x1f, b''))                           # unknown, small odd type number (seed round 7: types <= 31 special-cased)
        hdr.append((0x51, bytes(8)))                      # Sequence (not modelled by the library: unknown to it)
    if frag is not None:
        hdr.append((0x52, st.uint_bytes(frag[0])))
        hdr.append((0x53, st.uint_bytes(frag[1])))
    if token is not None:
        hdr.append((0x62, bytes(token)))
    if nack_reason != 'absent' or empty_nack:
        inner = [] if empty_nack else [(0x0321, st.uint_bytes(nack_reason))]
        hdr.append((0x0320, inner))
    if extra:
        hdr.append((0x032C, st.uint_bytes(300)))          # IncomingFaceId
        hdr.append((0x0330, st.uint_bytes(7)))            # NextHopFaceId
        hdr.append((0x0334, [(0x0335, st.uint_bytes(1))]))  # CachePolicy { CachePolicyType = NoCache }
        hdr.append((0x0340, st.uint_bytes(1)))            # CongestionMark
        hdr.append((0x0348, st.uint_bytes(9)))            # TxSequence
        hdr.append((0x034C, b''))                         # NonDiscovery (no value)
        hdr.append((0x0354, b'\x01\x02'))                 # unknown, ignorable (800..959, low bits 00)
    if odd:
        hdr.append((0x0341, b'\x07'))                     # unknown, odd type number
        hdr.append((0x0355, b''))                         # unknown, odd type number, empty
    body = hdr + ([(0x50, bytes(fragment))] if fragment is not None else [])
    return st.write_tlv([(0x64, body)])


class PitRun:
    def __init__(self, front):
        self.front = front
        self.sess = Session()
        self.sess.__enter__()
        self.loop = self.sess.loop
        self.t0 = self.loop.time()
        self.app, self.face = new_app(front, debug_log=True)
        self.face.running = False
        self.main = self.sess.spawn(self.app.main_loop())
        self.loop.settle()
        assert self.face.running
        self.tasks = []          # per entry
        self.done_at = []
        self.vfut = []           # per entry: list of futures of validator invocations
        self.vnew = []
        self.pa_entries = set()  # Interests expressed with the library's own pass_all validator (appv2)
        self.pa_called = []      # ... for which that validator was called during the current stimulus
        self._orig_pass_all = None
        self.pa_accounted = set()
        self.bg = []
        self.wires = {}
        self.nsent = 0
        self.coros = {}
        self.shared_param = None
        self.seen_data = []
        self.finals = {}
        self.want_raw = set()
        if front == 'v2':
            # appv2 has no default: an Interest cannot be expressed without a Data validator (nothing may be sent or kept)
            n0 = len(self.face.out)
            try:
                c = self.app.express('/zz/novalidator', None, lifetime=10)
                if hasattr(c, 'close'):
                    c.close()
                self.bg.append('express-without-validator-accepted')
            except ValueError:
                pass
            if len(self.face.out) != n0 or self.npit():
                self.bg.append('express-without-validator-left-something')

    def close(self):
        if self._orig_pass_all is not None:
            from ndn import appv2
            appv2.pass_all = self._orig_pass_all
        for c in self.coros.values():
            c.close()
        self.app._verif_restore_log()
        self.sess.__exit__(None, None, None)

    # ---- helpers
    def tick(self):
        return int(round((self.loop.time() - self.t0) * 1000)) // TICK_MS

    # A spec name whose last component is "P" stands for <base>/<ParametersSha256Digest>: the Interest is expressed on
    # <base> with ApplicationParameters b'p' and a DigestSha256 signature, the library appends the digest component
    # (the final name), and matching Data carries that final name.
    PARAMS = b'p'

    def final_name(self, base):
        key = tuple(base)
        if key not in self.finals:
            from ndn.security.signer import DigestSha256Signer
            _, fn = enc.make_interest(nm(list(base)), enc.InterestParam(), self.PARAMS, signer=DigestSha256Signer(),
                                      need_final_name=True)
            self.finals[key] = [bytes(c) for c in fn]
        return self.finals[key]

    def uri(self, comps):
        comps = list(comps)
        if comps and comps[-1] == 'P':
            return enc.Name.to_str(self.final_name(comps[:-1]))
        return nm(comps)

    def data_wire(self, d):
        key = (tuple(d['name']), d['id'])
        if key not in self.wires:
            # FreshnessPeriod present for even ids only: matching does not depend on it (nor on the Interest's MustBeFresh)
            mi = enc.MetaInfo(freshness_period=1000) if d['id'] % 2 == 0 else enc.MetaInfo()
            shape = self.shape_of(d['name'], d['id'])
            if shape != 'normal':
                mi.content_type = d['id']          # the packet id travels in MetaInfo when the content cannot carry it
            content = {'normal': b'D%d' % d['id'], 'empty': b'', 'absent': None}[shape]
            self.wires[key] = bytes(enc.make_data(self.uri(d['name']), mi, content))
        return self.wires[key]

    @staticmethod
    def shape_of(name, did):
        """What the Data packet carries besides its name (matching, validation and delivery do not depend on it):
        a Content element with octets, an empty Content element, no Content element at all."""
        return ('normal', 'empty', 'normal', 'absent', 'normal', 'normal')[(did * 7 + len(name)) % 6]

    def packet_id(self, name, meta, content):
        """-> (id, the delivered content is what that packet carries)"""
        if content is not None and len(content) > 0:
            did = int(bytes(content)[1:])
        else:
            did = meta.content_type
        comps = [c for c in self.wires if c[1] == did and enc.Name.to_str(name) == self.uri(c[0])]
        if not comps:
            return did, False
        shape = self.shape_of(comps[0][0], did)
        ok = (content is None) if shape == 'absent' else (content is not None and len(content) == 0) if shape == 'empty' \
            else (content is not None and bytes(content) == b'D%d' % did)
        return did, ok

    def int_name(self, t, final=False):
        if t['name'] and t['name'][-1] == 'P':
            return list(self.final_name(t['name'][:-1])) if final else enc.Name.from_str(nm(t['name'][:-1]))
        name = enc.Name.from_str(nm(t['name']))
        if t['dig']:
            # the packet with this id under the same name
            w = self.data_wire({'name': t['name'], 'id': t['dig']})
            name = name + [enc.Component.from_bytes(hashlib.sha256(w).digest(), enc.Component.TYPE_IMPLICIT_SHA256)]
        return name

    def validator_for(self, e):
        if e in self.pa_entries:
            return self.pass_all_for(e)
        async def hv(*args):
            return await self.validate(e, args)
        return hv

    def take_pa_called(self):
        """Entries whose accept-everything validator gave its verdict during the current stimulus: it was called, or the
        Interest got the Data without the call (code that knows the library's pass_all need not call it)."""
        c, self.pa_called = self.pa_called, []
        for e in sorted(self.pa_entries):
            t = self.tasks[e - 1] if e - 1 < len(self.tasks) else None
            if e not in self.pa_accounted and e not in c and t is not None and t.done() and not t.cancelled() \
                    and t.exception() is None:
                c.append(e)
        self.pa_accounted.update(c)
        return c

    def pass_all_for(self, e):
        """The library's own accept-everything validator, `appv2.pass_all`, for entry e: the module attribute is replaced by
        a function that notes the call and answers PASS at once, so code that singles the validator out by identity
        (`entry.validator is pass_all`) takes that path for the entry expressed most recently with it."""
        from ndn import appv2

        async def pass_all(_name, _sig, _context):
            self.pa_called.append(e)
            return ndn_types.ValidResult.PASS
        if self._orig_pass_all is None:
            self._orig_pass_all = appv2.pass_all
        appv2.pass_all = pass_all
        return pass_all

    async def validate(self, e, args):
        """body of every harness Data validator: checks that it was handed the packet that is being delivered, then
        waits for the verdict the schedule gives"""
        # (a validator may run later than the delivery - legacy deferred await - so any packet delivered so far counts)
        try:
            cands = [d for d in self.seen_data if self.uri(d['name']) == enc.Name.to_str(args[0])]
            if not cands:
                self.bg.append('validator-got-wrong-name')
            elif len(args) >= 3 and bytes(args[2]['raw_packet']) not in [self.data_wire(d) for d in cands]:
                self.bg.append('validator-got-wrong-raw-packet')
            elif args[1] is None or not any(b''.join(bytes(x) for x in args[1].signature_covered_part) in self.data_wire(d)
                                            for d in cands):
                self.bg.append('validator-got-wrong-signature-pointers')
        except Exception as ex:  # noqa
            self.bg.append('validator-arguments:' + type(ex).__name__)
        fut = self.loop.create_future()
        self.vfut[e - 1].append(fut)
        self.vnew.append(e)
        return await fut

    async def app_wide_validator(self, *args):
        """legacy app.data_validator: in force for the Interests expressed without a validator of their own; the entry
        is the one whose task is running (context variable set by with_entry)"""
        return await self.validate(_CUR_ENTRY.get(), args)

    async def with_entry(self, e, coro):
        _CUR_ENTRY.set(e)
        return await coro

    def wrap(self, wire, env, **kw):
        if env == 'bare':
            return wire
        # a forwarder may echo a PIT token on Data as well: it does not change how the packet is processed
        if env == 'lph':
            kw.setdefault('token', b'\xaa\xbb\xcc\xdd')
        return lp_wrap(wire, extra=(env == 'lph'), odd=(env == 'lpo'), **kw)

    def npit(self):
        tree = self.app._pit if self.front == 'v2' else self.app._int_tree
        return sum(len(node.pending_list) for node in tree.itervalues())

    def outcome(self, i):
        t = self.tasks[i]
        none = {'k': 'none', 'd': 0, 'r': 0, 'v': '-', 'at': 0}
        if t is None or not t.done():
            return none
        at = self.done_at[i]
        if t.cancelled():
            return {'k': 'cancel', 'd': 0, 'r': 0, 'v': '-', 'at': at}
        ex = t.exception()
        if ex is None:
            res = t.result()
            name = res[0]
            content = res[1] if self.front == 'v2' else res[2]
            try:
                meta = res[2]['meta_info'] if self.front == 'v2' else res[1]
                did, cok = self.packet_id(name, meta, content)
                w = bytes(self.data_wire_by_id(did, name) or b'')
                ok = w != b'' and cok
                # the rest of what the caller gets belongs to the same packet: appv2 context (raw packet, MetaInfo),
                # legacy MetaInfo and - when asked for - the raw packet
                if ok and self.front == 'v2':
                    ctx = res[2]
                    ok = bytes(ctx['raw_packet']) == w and \
                        (ctx['meta_info'].freshness_period == (1000 if did % 2 == 0 else None))
                elif ok:
                    ok = res[1].freshness_period == (1000 if did % 2 == 0 else None) and \
                        (len(res) == 3 or bytes(res[3]) == w) and (len(res) == 4) == (i in self.want_raw)
            except Exception:
                did, ok = 0, False
            return {'k': 'data' if ok else 'error:bad-data', 'd': did, 'r': 0, 'v': '-', 'at': at}
        if isinstance(ex, ndn_types.InterestNack):
            r = REASONS.index(ex.reason) if ex.reason in REASONS[1:] else 0
            return {'k': 'nack', 'd': 0, 'r': r, 'v': '-', 'at': at}
        if isinstance(ex, ndn_types.InterestTimeout):
            return {'k': 'timeout', 'd': 0, 'r': 0, 'v': '-', 'at': at}
        if isinstance(ex, ndn_types.InterestCanceled):
            return {'k': 'cancel', 'd': 0, 'r': 0, 'v': '-', 'at': at}
        if isinstance(ex, ndn_types.ValidationFailure):
            try:
                did, cok = self.packet_id(ex.name, ex.meta_info, ex.content)
                if not cok:
                    did = 0
            except Exception:
                did = 0
            if self.front == 'v2':
                v = {'ALLOW_BYPASS': 'BYPASS', 'None': 'NONE', 'False': 'FALSEV'}.get(
                    getattr(ex.result, 'name', str(ex.result)), getattr(ex.result, 'name', str(ex.result)))
            else:
                v = 'F'
            return {'k': 'vfail', 'd': did, 'r': 0, 'v': v, 'at': at}
        return {'k': 'error:%s' % type(ex).__name__, 'd': 0, 'r': 0, 'v': '-', 'at': at}

    def data_wire_by_id(self, did, name):
        for (n, i), w in self.wires.items():
            if i == did and enc.Name.to_str(name) == self.uri(n):
                return w
        return None

    def post(self):
        for c in self.loop.errors:
            self.bg.append('loop:' + type(c.get('exception')).__name__ if c.get('exception') is not None
                           else 'loop:' + str(c.get('message'))[:40])
        self.loop.errors.clear()
        # "nothing about it remains pending": no node of the pending-Interest trie may be left without an entry
        tree = self.app._pit if self.front == 'v2' else self.app._int_tree
        if any(len(node.pending_list) == 0 for node in tree.itervalues()):
            self.bg.append('empty-pit-node-left-behind')
        if hasattr(self.face, 'overwritten') and self.face.overwritten() and 'sent-buffer-overwritten-after-send' not in self.bg:
            self.bg.append('sent-buffer-overwritten-after-send')
        p = {'now': self.tick(), 'up': bool(self.face.running),
             'out': [self.outcome(i) for i in range(len(self.tasks))],
             'npit': self.npit(), 'vnew': sorted(self.vnew), 'bg': len(self.bg),
             'bgw': sorted(set(self.bg))}
        self.vnew = []
        return p

    # ---- stimuli
    def apply(self, ev):
        a = ev['a']
        loop = self.loop
        if a in ('Express', 'ExpressDown'):
            t = ev['t']
            e = len(self.tasks) + 1
            name = self.int_name(t)
            kw = dict(can_be_prefix=bool(t['cbp']), lifetime=t['life'] * TICK_MS, nonce=0x01020304,
                      must_be_fresh=(e % 4 == 1))
            if e % 5 == 0:
                del kw['nonce']          # the library draws the nonce itself
            if t['life'] == DEFAULT_LIFE:
                # the lifetime is not given: the default of 4000 ms applies, also without an InterestLifetime element
                if e % 3 == 0:
                    kw['lifetime'] = None
                else:
                    del kw['lifetime']
            parameterised = bool(t['name']) and t['name'][-1] == 'P'
            if parameterised:
                from ndn.security.signer import DigestSha256Signer
                kw['app_param'] = self.PARAMS
                kw['signer'] = DigestSha256Signer()
                if e % 2 == 1:
                    # the caller marks the place of the digest itself with a ParametersSha256Digest placeholder (the
                    # library overwrites its value); the Interest on the wire and the pending entry are the same as
                    # for the appended component (seed round 6: the entry was kept under the placeholder's value)
                    name = name + [enc.Component.from_bytes(bytes(32), enc.Component.TYPE_PARAMETERS_SHA256)]
            if e % 2 == 0 and not parameterised:
                # every second Interest is expressed through ONE InterestParam object that the caller keeps and
                # overwrites for the next Interest (the parameters of a pending Interest must not follow it)
                if self.shared_param is None:
                    self.shared_param = enc.InterestParam()
                sp = self.shared_param
                sp.can_be_prefix, sp.lifetime, sp.nonce, sp.must_be_fresh = bool(t['cbp']), t['life'] * TICK_MS, 0x01020304, (e % 8 == 0)
                kw = dict(interest_param=sp)
            self.vfut.append([])
            if ev.get('pa') and self.front == 'v2':
                self.pa_entries.add(e)
            # the name in every accepted representation (component list, URI text, encoded Name, tuple, and buffers which
            # the caller overwrites as soon as the call has returned: a pending Interest must not alias them)
            scratch = None
            rep = e % 6
            if rep == 1:
                name = enc.Name.to_str(name)
            elif rep == 2:
                name = bytes(enc.Name.to_bytes(name))
            elif rep == 3:
                name = tuple(bytes(c) for c in name)
            elif rep == 4:
                scratch = name = bytearray(enc.Name.to_bytes(name))
            elif rep == 5:
                scratch = bytearray(b''.join(bytes(c) for c in name))
                views, off = [], 0
                for c in name:
                    views.append(memoryview(scratch)[off:off + len(c)])
                    off += len(c)
                name = views
            try:
                before = len(self.face.out)
                if e % 7 == 3 or (self.front == 'legacy' and e % 8 == 6):
                    # the other public way to express an Interest: the caller encodes it itself and hands over the wire,
                    # the final name and the parameters (express_raw_interest, both front-ends)
                    ip = kw.get('interest_param')
                    if ip is None:
                        ip = enc.InterestParam(**{k: v for k, v in kw.items()
                                                  if k in ('can_be_prefix', 'must_be_fresh', 'nonce', 'lifetime')})
                        if 'lifetime' not in kw:
                            ip.lifetime = None
                            kw['lifetime'] = None     # what the wire must show: no InterestLifetime element
                    raw, fname = enc.make_interest(name, ip, kw.get('app_param'), signer=kw.get('signer'), need_final_name=True)
                    if not self.face.running:
                        raise ndn_types.NetworkError('cannot send packet before connected')
                    if self.front == 'legacy' and e % 4 == 2:
                        # no validator of its own: the application-wide data_validator is in force on this path too
                        self.app.data_validator = self.app_wide_validator
                        coro = self.with_entry(e, self.app.express_raw_interest(fname, ip, raw))
                    else:
                        coro = self.app.express_raw_interest(fname, ip, raw, self.validator_for(e))
                elif self.front == 'v2':
                    coro = self.app.express(name, self.validator_for(e), **kw)
                elif e % 4 == 2:
                    # no validator of its own: the application-wide data_validator is in force
                    self.app.data_validator = self.app_wide_validator
                    coro = self.with_entry(e, self.app.express_interest(name, **kw))
                else:
                    if e % 3 == 1:
                        kw['need_raw_packet'] = True
                        self.want_raw.add(e - 1)
                    coro = self.app.express_interest(name, validator=self.validator_for(e), **kw)
            except ndn_types.NetworkError:
                self.vfut.pop()
                if a != 'ExpressDown':
                    self.bg.append('express:NetworkError')
                loop.settle(timers_now=False)
                return
            if a == 'ExpressDown':
                self.bg.append('express-while-down-accepted')
            if scratch is not None:
                for k in range(len(scratch)):
                    scratch[k] = 0x2a
            idx = len(self.tasks)
            self.done_at.append(0)
            if ev.get('defer'):
                # the caller keeps the awaitable and awaits it later (event Await)
                self.tasks.append(None)
                self.coros[idx] = coro
            else:
                task = loop.create_task(coro)
                self.tasks.append(task)
                task.add_done_callback(lambda _t, idx=idx: self.done_at.__setitem__(idx, self.tick()))
            loop.settle(timers_now=False)
            sent = self.face.out[before:]
            if len(sent) != 1:
                self.bg.append('express-sent-%d-packets' % len(sent))
            else:
                try:
                    n2, p2, _, _ = enc.parse_interest(sent[0])
                    if enc.Name.to_str(n2) != enc.Name.to_str(self.int_name(t, final=True)) or bool(p2.can_be_prefix) != bool(t['cbp']) \
                            or p2.lifetime != (None if 'lifetime' in kw and kw['lifetime'] is None else t['life'] * TICK_MS):
                        self.bg.append('express-wrong-interest')
                except Exception as ex:  # noqa
                    self.bg.append('express-unparsable-interest')
        elif a == 'RecvDataFire':
            # the packet is handed over in the loop iteration in which the due lifetime timers run: its callback first, the
            # timer handles right behind it in the same ready queue
            self.seen_data.append(ev['d'])
            w = self.wrap(self.data_wire(ev['d']), ev['env'])
            ex = deliver(self.sess, self.face, w, timers_now=True)
            if ex is not None:
                self.bg.append('receive:' + type(ex).__name__)
        elif a == 'RecvData':
            self.seen_data.append(ev['d'])
            w = self.wrap(self.data_wire(ev['d']), ev['env'])
            ex = deliver(self.sess, self.face, w, timers_now=False, before_run=lambda: self.cancel_in_flight(ev.get('x', [])))
            if ex is not None:
                self.bg.append('receive:' + type(ex).__name__)
        elif a in ('RecvNack', 'RecvNackFire'):
            t = ev['t']
            ipar = enc.InterestParam(can_be_prefix=bool(t['cbp']), lifetime=t['life'] * TICK_MS, nonce=0x01020304)
            if t['name'] and t['name'][-1] == 'P':
                from ndn.security.signer import DigestSha256Signer
                iw = bytes(enc.make_interest(self.int_name(t), ipar, self.PARAMS, signer=DigestSha256Signer()))
            else:
                iw = bytes(enc.make_interest(self.int_name(t), ipar))
            reason = REASONS[ev['r']]
            # reason code 0 in a plain LP envelope is sent as a Nack header *without* NackReason (NDNLPv2: absent = 0)
            w = lp_wrap(iw, nack_reason=('absent' if (reason == 0 and ev['env'] == 'lp') else reason),
                        extra=(ev['env'] == 'lph'), odd=(ev['env'] == 'lpo'), empty_nack=(reason == 0 and ev['env'] == 'lp'))
            if a == 'RecvNackFire':
                # the Nack is handed over in the loop iteration in which the due lifetime timers run (NdnPit!RecvNackFire)
                ex = deliver(self.sess, self.face, w, timers_now=True)
            else:
                ex = deliver(self.sess, self.face, w, timers_now=False, before_run=lambda: self.cancel_in_flight(ev.get('x', [])))
            if ex is not None:
                self.bg.append('receive:' + type(ex).__name__)
        elif a == 'RecvJunk':
            w = bytes.fromhex(ev['hex'])
            ex = deliver(self.sess, self.face, w, timers_now=False) if len(w) > 0 else None
            if ex is not None:
                self.bg.append('receive:' + type(ex).__name__)
        elif a == 'ValFinish':
            e, v = ev['e'], ev['v']
            futs = [f for f in self.vfut[e - 1] if not f.done()] if e <= len(self.vfut) else []
            if futs:
                f = futs[0]
                if self.front == 'v2':
                    if v == 'RAISE':
                        f.set_exception(TimeoutError())
                    else:
                        f.set_result({'PASS': ndn_types.ValidResult.PASS, 'FAIL': ndn_types.ValidResult.FAIL,
                                      'TIMEOUT': ndn_types.ValidResult.TIMEOUT, 'SILENCE': ndn_types.ValidResult.SILENCE,
                                      'BYPASS': ndn_types.ValidResult.ALLOW_BYPASS,
                                      # a validator written for the legacy front-end: a plain falsy answer, no ValidResult
                                      'NONE': None, 'FALSEV': False}[v])
                else:
                    variants = {'T': [True, 1, 'x', [0]], 'F': [False, 0, None, '', []]}[v]
                    f.set_result(variants[(e + self.tick()) % len(variants)])
            loop.settle(timers_now=False)
        elif a == 'Fire':
            loop.settle(timers_now=True)
        elif a == 'Tick':
            # anything still due now that the schedule did not expect fires first (shows up in post)
            loop.settle(timers_now=True)
            loop.set_time(self.t0 + (self.tick() + 1) * TICK_MS / 1000.0)
            loop.settle(timers_now=False)
        elif a == 'Jump':
            # time really passes: whatever the library scheduled before the target instant fires at its own time
            # (the specification says nothing is due in between); timers due AT the target wait for Fire
            target = self.t0 + ev['to'] * TICK_MS / 1000.0
            loop.advance_to(target - 0.0005)
            loop.set_time(target)
            loop.settle(timers_now=False)
        elif a == 'Await':
            idx = ev['e'] - 1
            coro = self.coros.pop(idx, None)
            if coro is not None:
                task = loop.create_task(coro)
                self.tasks[idx] = task
                task.add_done_callback(lambda _t, idx=idx: self.done_at.__setitem__(idx, self.tick()))
            loop.settle(timers_now=False)
        elif a == 'Cancel':
            e = ev['e']
            if e <= len(self.tasks) and self.tasks[e - 1] is not None:
                self.tasks[e - 1].cancel()
            loop.settle(timers_now=False)
        elif a == 'Shutdown':
            self.app.shutdown()
            loop.settle(timers_now=False)
        elif a == 'Connect':
            # main_loop again on the same application object (the previous call has returned)
            self.main = self.sess.spawn(self.app.main_loop())
            loop.settle(timers_now=False)
        else:
            raise ValueError(a)

    def cancel_in_flight(self, xs):
        """The callers of the Interests xs cancel them now: the receive task for the packet is already queued, so
        the packet is processed BEFORE the cancelled tasks run their clean-up."""
        for e in xs:
            if e <= len(self.tasks) and self.tasks[e - 1] is not None:
                self.tasks[e - 1].cancel()

    def due_now(self):
        nt = self.loop._next_timer()
        return nt is not None and nt <= self.loop.time() + 1e-6


def split_data_fire(ev):
    """the composite stimulus as the two trace events NdnPitTrace reads: RecvData (hidden: no observation) + Fire"""
    return [{'a': 'RecvData', 'd': ev['d'], 'env': ev['env'], 'x': [], 'hidden': True, 'post': ev['post']},
            {'a': 'Fire', 'post': ev['post']}]


def split_delivery(ev, pa_called):
    """A Data delivery during which validators that answer at once (the library's pass_all) were called, as trace events:
    RecvData (hidden), ValFinish(e, PASS) for each of them (hidden but the last) [, Fire for the composite stimulus] -
    the observation belongs to the last event."""
    fire = ev['a'] == 'RecvDataFire'
    # a validator call for an Interest whose cancellation is in flight is tolerated (the statement is silent): no event
    pa_called = [e for e in pa_called if e not in ev.get('x', [])]
    if not pa_called:
        return split_data_fire(ev) if fire else [ev]
    out = [{'a': 'RecvData', 'd': ev['d'], 'env': ev['env'], 'x': ev.get('x', []), 'hidden': True, 'post': ev['post']}]
    if fire:
        # the timer handles run in the iteration of the packet, the validation tasks in the next one
        out.append({'a': 'Fire', 'hidden': True, 'post': ev['post']})
    for e in pa_called:
        out.append({'a': 'ValFinish', 'e': e, 'v': 'PASS', 'hidden': True, 'post': ev['post']})
    del out[-1]['hidden']
    return out


def run_schedule(front, schedule):
    """schedule: list of events (dicts with 'a' + args). Returns the list of events with 'post'."""
    r = PitRun(front)
    out = []
    try:
        for ev in schedule:
            r.apply(ev)
            ev2 = dict(ev)
            ev2['post'] = r.post()
            if ev['a'] in ('RecvDataFire', 'RecvData'):
                out.extend(split_delivery(ev2, r.take_pa_called()))
            else:
                out.append(ev2)
    finally:
        r.close()
    return out
