import json
from ndn.encoding import Component, Name
recs=[]
def add(t, v):
    c = Component.from_bytes(bytes(v), t)
    ts = Component.to_str(c); cn = Component.to_canonical_uri(c)
    try:
        back = Component.from_str(cn); fb = {"t": Component.get_type(back), "v": list(bytes(Component.get_value(back)))}
    except Exception as e:
        fb = {"t": 0, "v": []}
    recs.append({"t": t, "v": list(v), "to_str": [ord(x) for x in ts], "canon": [ord(x) for x in cn], "from_canon": fb})
for t in (8, 32, 65535, 1, 2, 253):
    for b in range(256): add(t, [b])
    add(t, []); add(t, [0x2f, 0x25]); add(t, [0x41, 0x3d, 0x42])
for t in (50, 52, 54, 56, 58):
    for n in (0, 1, 255, 256, 65535, 65536, 2**31 - 1):
        v = n.to_bytes(1 if n < 256 else 2 if n < 65536 else 4, 'big'); add(t, list(v))
json.dump({"recs": recs}, open('in.json', 'w'))
print(len(recs))
