---- MODULE KcP ----
EXTENDS Naturals, Sequences, FiniteSets, TLC
CONSTANTS Depth
Ids == {"A","B"}
KeyN == 1..2
Keys == Ids \X KeyN          \* <<id, n>>
CertN == 1..2                \* 1 = self-signed made by new_key, 2 = imported
Certs == Keys \X CertN
NoId == "none"
NoKey == <<"none", 0>>
NoCert == <<NoKey, 0>>
VARIABLES ids, keys, certs, defId, defKey, defCert, tpm, cache, steps
vars == <<ids, keys, certs, defId, defKey, defCert, tpm, cache, steps>>
Init == ids = {} /\ keys = {} /\ certs = {} /\ defId = NoId /\ defKey = [i \in Ids |-> NoKey] /\ defCert = [k \in Keys |-> NoCert]
        /\ tpm = {} /\ cache = {} /\ steps = 0
Step == steps < Depth /\ steps' = steps + 1
KeysOf(i) == {k \in keys : k[1] = i}
CertsOf(k) == {c \in certs : c[1] = k}
FreshKey(i) == IF <<i,1>> \notin keys THEN <<i,1>> ELSE <<i,2>>
AddKey(i) == LET k == FreshKey(i) IN
   /\ k \notin keys
   /\ keys' = keys \cup {k} /\ certs' = certs \cup {<<k,1>>} /\ tpm' = tpm \cup {k}
   /\ defKey' = (IF defKey[i] = NoKey THEN [defKey EXCEPT ![i] = k] ELSE defKey)
   /\ defCert' = [defCert EXCEPT ![k] = <<k,1>>]
NewIdentity(i) == /\ Step /\ i \notin ids /\ ids' = ids \cup {i}
                  /\ defId' = (IF defId = NoId THEN i ELSE defId)
                  /\ UNCHANGED <<keys, certs, defKey, defCert, tpm, cache>>
TouchIdentity(i) == /\ Step
   /\ (IF i \in ids THEN (UNCHANGED <<ids, keys, certs, defKey, defCert, tpm>> /\ defId' = (IF defId = NoId THEN i ELSE defId))
      ELSE (ids' = ids \cup {i} /\ AddKey(i) /\ defId' = (IF defId = NoId THEN i ELSE defId)))
   /\ UNCHANGED cache
NewKey(i) == Step /\ i \in ids /\ AddKey(i) /\ UNCHANGED <<ids, defId, cache>>
ImportCert(k) == /\ Step /\ k \in keys /\ <<k,2>> \notin certs /\ certs' = certs \cup {<<k,2>>}
                 /\ defCert' = (IF defCert[k] = NoCert THEN [defCert EXCEPT ![k] = <<k,2>>] ELSE defCert)
                 /\ UNCHANGED <<ids, keys, defId, defKey, tpm, cache>>
SetDefId(i) == Step /\ i \in ids /\ defId # i /\ defId' = i /\ UNCHANGED <<ids, keys, certs, defKey, defCert, tpm, cache>>
SetDefKey(k) == Step /\ k \in keys /\ defKey[k[1]] # k /\ defKey' = [defKey EXCEPT ![k[1]] = k] /\ UNCHANGED <<ids, keys, certs, defId, defCert, tpm, cache>>
SetDefCert(c) == Step /\ c \in certs /\ defCert[c[1]] # c /\ defCert' = [defCert EXCEPT ![c[1]] = c] /\ UNCHANGED <<ids, keys, certs, defId, defKey, tpm, cache>>
DelCert(c) == /\ Step /\ c \in certs /\ certs' = certs \ {c}
              /\ defCert' = (IF defCert[c[1]] = c THEN [defCert EXCEPT ![c[1]] = NoCert] ELSE defCert)
              /\ cache' = {} /\ UNCHANGED <<ids, keys, defId, defKey, tpm>>
RmKeys(K) == /\ keys' = keys \ K /\ certs' = {c \in certs : c[1] \notin K} /\ tpm' = tpm \ K
             /\ defCert' = [k \in Keys |-> IF k \in K THEN NoCert ELSE defCert[k]]
DelKey(k) == /\ Step /\ k \in keys /\ RmKeys({k})
             /\ defKey' = (IF defKey[k[1]] = k THEN [defKey EXCEPT ![k[1]] = NoKey] ELSE defKey)
             /\ cache' = {} /\ UNCHANGED <<ids, defId>>
DelIdentity(i) == /\ Step /\ i \in ids /\ RmKeys(KeysOf(i)) /\ ids' = ids \ {i}
                  /\ defKey' = [defKey EXCEPT ![i] = NoKey]
                  /\ defId' = (IF defId = i THEN NoId ELSE defId) /\ cache' = {}
GetSignerDefault == /\ Step /\ defId # NoId /\ defKey[defId] # NoKey /\ defCert[defKey[defId]] # NoCert
                    /\ cache' = cache \cup {<<defCert[defKey[defId]], defKey[defId]>>}
                    /\ UNCHANGED <<ids, keys, certs, defId, defKey, defCert, tpm>>
Reopen == Step /\ cache' = {} /\ UNCHANGED <<ids, keys, certs, defId, defKey, defCert, tpm>>
Next == \/ \E i \in Ids : NewIdentity(i) \/ TouchIdentity(i) \/ NewKey(i) \/ SetDefId(i) \/ DelIdentity(i)
        \/ \E k \in Keys : ImportCert(k) \/ SetDefKey(k) \/ DelKey(k)
        \/ \E c \in Certs : SetDefCert(c) \/ DelCert(c)
        \/ GetSignerDefault \/ Reopen
Spec == Init /\ [][Next]_vars
Inv == /\ \A k \in keys : k[1] \in ids
       /\ \A c \in certs : c[1] \in keys
       /\ tpm = keys
       /\ (defId # NoId => defId \in ids)
       /\ \A i \in Ids : defKey[i] # NoKey => defKey[i] \in KeysOf(i)
       /\ \A k \in Keys : defCert[k] # NoCert => defCert[k] \in CertsOf(k)
       /\ \A s \in cache : s[2] \in keys
====
