from ndn.app_support.light_versec import compile_lvs, Checker, DEFAULT_USER_FNS
lvs = r'''
#r: _a & { _a: "x"|"y" }
#s: #r/#r
'''
c = Checker(compile_lvs(lvs), {})
for n in ['/x/y', '/x/z', '/z/x']:
    print(n, [m[0] for m in c.match(n)])
lvs = r'''
#pkt: a/"data" <= #key
#key: a/"KEY" & { a: "admin" }
'''
c = Checker(compile_lvs(lvs), {})
print('check bob', c.check('/bob/data', '/bob/KEY'), 'check admin', c.check('/admin/data','/admin/KEY'))
print('match key bob', list(c.match('/bob/KEY')))
try:
    print(list(c.match('/')))
except Exception as e: print('empty name', repr(e))
# key name that matches no rule at all
lvs = r'''
#pkt: "data" <= #key
#key: "KEY"/x
'''
c = Checker(compile_lvs(lvs), {})
print(c.check('/data', '/KEY'), c.check('/data','/KEY/1'), c.check('/data', '/other'))
