import json, itertools, sys
from ndn.app_support.light_versec import compile_lvs, Checker
from ndn.encoding import Name, Component
def V(v): return {"k":"v","v":v}
def P(p): return {"k":"p","p":p}
def R(r): return {"k":"r","r":r}
def F(f,*a): return {"k":"f","f":f,"args":list(a)}
def render(schema):
    out=[]
    for r in schema:
        name='/'.join('"%s"'%i['v'] if i['k']=='v' else i['p'] if i['k']=='p' else i['r'] for i in r['name'])
        s=f"{r['id']}: {name}"
        if r['cons']:
            def opt(o):
                if o['k']=='v': return '"%s"'%o['v']
                if o['k']=='p': return o['p']
                return o['f']+'('+','.join(opt(a) for a in o['args'])+')'
            s+=' & '+' | '.join('{'+', '.join(f"{c['pat']}: "+'|'.join(opt(o) for o in c['opts']) for c in cs)+'}' for cs in r['cons'])
        if r['sign']: s+=' <= '+' | '.join(r['sign'])
        out.append(s)
    return '\n'.join(out)
def rule(id,name,cons=(),sign=()): return {"id":id,"name":list(name),"cons":[list(cs) for cs in cons],"sign":list(sign)}
def C(pat,*opts): return {"pat":pat,"opts":list(opts)}
schemas = [
 [rule('#r',[P('_a')],[[C('_a',V('x'),V('y'))]]), rule('#s',[R('#r'),R('#r')])],
 [rule('#pkt',[P('a'),V('data')],sign=['#key']), rule('#key',[P('a'),V('KEY')],[[C('a',V('x'))]])],
 [rule('#r1',[P('_a'),P('b'),P('_a')],[[C('_a',V('x'),V('y'))]]), rule('#r2',[R('#r1'),P('_a')],[[C('_a',V('z'))]])],
 [rule('#r',[P('a'),P('b'),P('c')],[[C('b',F('$eq',P('a'))),C('c',V('x'))],[C('c',P('a'))]])],
 [rule('#rule',[V('x'),P('b'),V('y')]), rule('#rule',[P('d'),V('y'),P('f')])],
 [rule('#r1',[P('a'),P('b')],[[C('a',P('b'))]])],
 [rule('#site',[V('x'),V('y')]), rule('#KEY',[V('KEY'),P('_')]), rule('#root',[R('#site'),R('#KEY')]),
  rule('#art',[R('#site'),P('author'),P('z')],sign=['#auth','#admin']), rule('#auth',[R('#site'),V('y'),P('author'),R('#KEY')],sign=['#admin']),
  rule('#admin',[R('#site'),V('x'),P('admin'),R('#KEY')],sign=['#root'])],
]
fns = {'$eq': lambda c,args: all(x==c for x in args), '$isx': lambda c,args: bytes(c)==bytes(Component.from_str('x'))}
out=[]
for sc in schemas:
    text=render(sc); print(text, file=sys.stderr); print('--', file=sys.stderr)
    ck=Checker(compile_lvs(text), fns)
    lits=sorted({i['v'] for r in sc for i in r['name'] if i['k']=='v'}|{o['v'] for r in sc for cs in r['cons'] for c in cs for o in c['opts'] if o['k']=='v'})
    alpha=(lits+['u','w'])[:5]
    L = 3 if len(sc)<6 else 0
    names=[list(t) for n in range(1,L+1) for t in itertools.product(alpha,repeat=n)]
    if len(sc)>=6:
        names=[['x','y','KEY','u'],['x','y','u','w'],['x','y','y','u','KEY','w'],['x','y','x','u','KEY','w'],['x','y','y','w','KEY','w'],['x','y','w','w']]
    def cname(n): return [Component.from_str(c) for c in n]
    match=[]
    for n in names:
        rec=[]
        for rules,ctx in ck.match(cname(n)):
            for rn in rules:
                import re
                if re.fullmatch(r"#_\d+", rn): continue
                rec.append({"rule":rn,"ctx":sorted([k,bytes(Component.get_value(v)).decode()] for k,v in ctx.items())})
        match.append(rec)
    pairs = list(itertools.product(names,names)) if len(names)<=40 else [(a,b) for a in names for b in names][:3000]
    import random; random.seed(1); random.shuffle(pairs); pairs=pairs[:1500]
    checks=[{"pkt":a,"key":b,"res":ck.check(cname(a),cname(b))} for a,b in pairs]
    out.append({"rules":sc,"names":names,"match":match,"checks":checks})
json.dump({"schemas":out}, open('in.json','w'))
