---- MODULE LvsP ----
EXTENDS Naturals, Sequences, FiniteSets, TLC, Json, IOUtils, Functions
Input == JsonDeserialize(IOEnv.LVS_IN)
Schemas == Input.schemas

IsTemp(p) == SubSeq(p, 1, 1) = "_"
DefsOf(S, rid) == {i \in 1..Len(S.rules) : S.rules[i].id = rid}

\* A chain is [items: Seq(item), cons: Seq([var, opts])]
\* item: [k:"v", v: str] | [k:"x", var: VAR];  VAR: [k:"n", p: str] | [k:"t", path: Seq(Nat), pos: Nat]
Lit(v) == [k |-> "v", v |-> v]
NVar(p) == [k |-> "n", p |-> p]
TVar(path, i) == [k |-> "t", path |-> path, pos |-> i]
Concat(c1, c2) == [items |-> c1.items \o c2.items, cons |-> c1.cons \o c2.cons]
Empty == [items |-> <<>>, cons |-> <<>>]

RECURSIVE ChainsOfDef(_, _, _), Build(_, _, _, _, _)
\* constraints of cons-set cs that are about identifier p
ConsFor(cs, p, var) == SelectSeq([j \in 1..Len(cs) |-> [var |-> var, pat |-> cs[j].pat, opts |-> cs[j].opts]], LAMBDA c : c.pat = p)
Build(S, di, path, cs, i) ==
  LET def == S.rules[di] IN
  IF i > Len(def.name) THEN {Empty}
  ELSE LET it == def.name[i]
           rest == Build(S, di, path, cs, i + 1)
           heads == IF it.k = "v" THEN {[items |-> <<Lit(it.v)>>, cons |-> <<>>]}
                    ELSE IF it.k = "p" THEN
                       IF IsTemp(it.p) THEN {[items |-> <<[k |-> "x", var |-> TVar(path, i)]>>, cons |-> ConsFor(cs, it.p, TVar(path, i))]}
                       ELSE {[items |-> <<[k |-> "x", var |-> NVar(it.p)]>>, cons |-> <<>>]}
                    ELSE UNION {ChainsOfDef(S, dq, Append(path, i)) : dq \in DefsOf(S, it.r)}
       IN {Concat(h, r) : h \in heads, r \in rest}
NamedCons(cs) == SelectSeq([j \in 1..Len(cs) |-> [var |-> NVar(cs[j].pat), pat |-> cs[j].pat, opts |-> cs[j].opts]], LAMBDA c : ~IsTemp(c.pat))
ChainsOfDef(S, di, path) ==
  LET def == S.rules[di]
      csChoices == IF Len(def.cons) = 0 THEN {<<>>} ELSE {def.cons[j] : j \in 1..Len(def.cons)}
  IN UNION {{[items |-> c.items, cons |-> c.cons \o NamedCons(cs)] : c \in Build(S, di, path, cs, 1)} : cs \in csChoices}

\* user functions on abstract components (strings)
Fn(f, c, args) == IF f = "$eq" THEN \A j \in 1..Len(args) : args[j] = c
                  ELSE IF f = "$isx" THEN c = "x"
                  ELSE FALSE
Unbound == "?unbound?"
ArgVal(a, ctx) == IF a.k = "v" THEN a.v ELSE IF a.p \in DOMAIN ctx THEN ctx[a.p] ELSE Unbound
OptHolds(o, c, ctx) == IF o.k = "v" THEN c = o.v
                       ELSE IF o.k = "p" THEN o.p \in DOMAIN ctx /\ ctx[o.p] = c
                       ELSE Fn(o.f, c, [j \in 1..Len(o.args) |-> ArgVal(o.args[j], ctx)])
ConsHold(chain, var, c, ctx) == \A j \in 1..Len(chain.cons) : chain.cons[j].var = var => \E q \in 1..Len(chain.cons[j].opts) : OptHolds(chain.cons[j].opts[q], c, ctx)

\* returns set of final contexts (0 or 1 element)
RECURSIVE MatchFrom(_, _, _, _)
MatchFrom(chain, name, k, ctx) ==
  IF k > Len(name) THEN {ctx}
  ELSE LET it == chain.items[k]  c == name[k] IN
    IF it.k = "v" THEN IF it.v = c THEN MatchFrom(chain, name, k + 1, ctx) ELSE {}
    ELSE LET x == it.var IN
      IF x.k = "n" /\ x.p \in DOMAIN ctx /\ ctx[x.p] # c THEN {}
      ELSE IF ~ConsHold(chain, x, c, ctx) THEN {}
      ELSE MatchFrom(chain, name, k + 1, IF x.k = "n" THEN (x.p :> c) @@ ctx ELSE ctx)
MatchChain(chain, name, ctx0) == IF Len(chain.items) # Len(name) THEN {} ELSE MatchFrom(chain, name, 1, ctx0)

EmptyCtx == [x \in {} |-> ""]
CtxAsSet(ctx) == {<<p, ctx[p]>> : p \in DOMAIN ctx}
Match(S, name) == UNION {{<<S.rules[di].id, CtxAsSet(ctx)>> : ctx \in UNION {MatchChain(ch, name, EmptyCtx) : ch \in ChainsOfDef(S, di, <<di>>)}} : di \in 1..Len(S.rules)}
Check(S, pkt, key) ==
  \E di \in 1..Len(S.rules) : \E ch \in ChainsOfDef(S, di, <<di>>) : \E ctx \in MatchChain(ch, pkt, EmptyCtx) :
     \E j \in 1..Len(S.rules[di].sign) : \E dk \in DefsOf(S, S.rules[di].sign[j]) :
        \E chk \in ChainsOfDef(S, dk, <<dk>>) : MatchChain(chk, key, ctx) # {}

RealMatch(rec) == {<<rec[j].rule, {<<rec[j].ctx[q][1], rec[j].ctx[q][2]>> : q \in 1..Len(rec[j].ctx)}>> : j \in 1..Len(rec)}
BadMatch(si) == LET S == Schemas[si] IN {S.names[ni] : ni \in {n \in 1..Len(S.names) : Match(S, S.names[n]) # RealMatch(S.match[n])}}
BadCheck(si) == LET S == Schemas[si] IN {<<S.checks[j].pkt, S.checks[j].key>> : j \in {q \in 1..Len(S.checks) : Check(S, S.checks[q].pkt, S.checks[q].key) # S.checks[q].res}}
ASSUME \A si \in 1..Len(Schemas) : PrintT(<<"SCHEMA", si, "badmatch", BadMatch(si), "badcheck", BadCheck(si)>>)
VARIABLE dummy
Init == dummy = 0
Next == UNCHANGED dummy
====
