INIT Init
NEXT Next
