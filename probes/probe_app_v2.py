import asyncio as aio, traceback, logging
from vloop import run
from ndn import appv2, types, encoding as enc
from ndn.transport.face import Face

class F(Face):
    def __init__(self): super().__init__(); self.out=[]; self.stop=None
    async def open(self): self.running=True; self.stop = aio.get_running_loop().create_future()
    def shutdown(self):
        self.running=False
        if self.stop and not self.stop.done(): self.stop.set_result(None)
    def send(self, data): self.out.append(bytes(data))
    async def run(self): await self.stop
    def isLocalFace(self): return True

async def scen1():
    # slow validator outliving the lifetime
    face = F(); app = appv2.NDNApp(face); res = {}
    async def slow(name, sig, ctx):
        await aio.sleep(0.5); return types.ValidResult.PASS
    async def main():
        try:
            r = await app.express('/a', slow, lifetime=100, nonce=None)
            res['r'] = ('data', bytes(r[1]))
        except BaseException as e:
            res['r'] = repr(e)
        await aio.sleep(1)
        res['pit'] = len(app._pit)
        app.shutdown()
    async def feeder():
        await aio.sleep(0.01)
        d = enc.make_data('/a', enc.MetaInfo(), b'x')
        await face.callback(6, d)
    t = aio.create_task(feeder())
    await app.main_loop(main())
    return res
if __name__ == '__main__': print('scen1', run(scen1))

async def scen2():
    # cancel then late nack
    face = F(); app = appv2.NDNApp(face); res = {}
    async def main():
        t = aio.create_task(app.express('/a', appv2.pass_all, lifetime=1000, nonce=None))
        await aio.sleep(0.01)
        t.cancel()
        try: await t
        except BaseException as e: res['r'] = repr(e)
        res['pit_after_cancel'] = len(app._pit)
        i = enc.make_interest('/a', enc.InterestParam(lifetime=1000))
        n = enc.make_network_nack(i, 150)
        try:
            await face.callback(0x64, n)
        except BaseException as e: res['nack'] = repr(e)
        app.shutdown()
    await app.main_loop(main())
    return res
if __name__ == '__main__': print('scen2', run(scen2))

async def scen3():
    # lp packet w/o fragment; nack without pending
    face = F(); app = appv2.NDNApp(face); res = {}
    async def main():
        try: await face.callback(0x64, bytes([0x64, 0x00]))
        except BaseException as e: res['emptylp'] = repr(e)
        i = enc.make_interest('/zz', enc.InterestParam(lifetime=1000))
        n = enc.make_network_nack(i, 150)
        try: await face.callback(0x64, n)
        except BaseException as e: res['nack-nopending'] = repr(e)
        try: await face.callback(5, bytes([0x05, 0x02, 0x21, 0x00]))
        except BaseException as e: res['noname'] = repr(e)
        try: await face.callback(6, bytes([0x06, 0x01, 0x07]))
        except BaseException as e: res['trunc'] = repr(e)
        app.shutdown()
    await app.main_loop(main())
    return res
if __name__ == '__main__': print('scen3', run(scen3))
