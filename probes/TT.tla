---- MODULE TT ----
EXTENDS Naturals, Sequences, TLC, Json, IOUtils, TLCExt
Traces == ndJsonDeserialize(IOEnv.TRACE_FILE)
VARIABLES x, tid, l
vars == <<x, tid, l>>
Tr == Traces[tid].ev
Inc(k) == /\ x + k <= 3 /\ x' = x + k
Reset == /\ x > 1 /\ x' = 0
Init == x = 0 /\ l = 1 /\ tid \in 1..Len(Traces) /\ TLCSet(tid, FALSE)
IsEv(n) == l <= Len(Tr) /\ Tr[l].a = n /\ l' = l + 1 /\ UNCHANGED tid
TInc == IsEv("Inc") /\ Inc(Tr[l].k) /\ x' = Tr[l].x
TReset == IsEv("Reset") /\ Reset /\ x' = Tr[l].x
Next == TInc \/ TReset
Spec == Init /\ [][Next]_vars
Done == l = Len(Tr) + 1
Mark == Done => TLCSet(tid, TRUE)
Post == \A i \in 1..Len(Traces) : (TLCGet(i) = TRUE) \/ (PrintT(<<"REJECTED", i>>) /\ FALSE)
Inv == x <= 3
====
