"""Probe: can two consecutive v2 registration commands carry the same SignatureTime
when the clock ticks between NfdRegister's guard read and the signer's read and the
forwarder answers within the same millisecond?  Run: /venv/bin/python probe_nfdreg.py"""
import asyncio as aio, time
import vloop
from ndn import appv2, encoding as enc
from ndn.app_support import nfd_mgmt
from probe_app_v2 import F

def control_response(code):
    cr = nfd_mgmt.ControlResponse(); cr.status_code = code; cr.status_text = 'OK'
    cr.body = nfd_mgmt.ControlParametersValue(); cr.body.face_id = 1   # without a body parse_response raises AttributeError
    body = cr.encode()
    return bytes([0x65, len(body)]) + bytes(body)

def make_scen(tick_after):
    async def scen():
        face = F(); app = appv2.NDNApp(face); res = {'ts': []}
        nreads = [0]; extra = [0.0]
        base = time.time            # already patched to virtual time by vloop.run
        def scripted():
            nreads[0] += 1
            t = base() + extra[0]
            if nreads[0] == tick_after:
                extra[0] += 0.001   # the wall clock ticks right after this read
            return t
        time.time = scripted
        def on_send(w):
            # forwarder answers within the same millisecond (next loop turn, no time passes)
            name, _, _, sig = enc.parse_interest(w)
            res['ts'].append(sig.signature_info.signature_time)
            aio.get_running_loop().create_task(face.callback(6, enc.make_data(name, enc.MetaInfo(), control_response(200))))
        orig_send = face.send
        face.send = lambda data: (orig_send(data), on_send(bytes(data)))[0]
        async def main():
            res['ret'] = (await app.register('/a'), await app.register('/b'))
            app.shutdown()
        await app.main_loop(main())
        res['reads'] = nreads[0]
        return res
    return scen

if __name__ == '__main__':
    for k in range(0, 14):
        r, errs = vloop.run(make_scen(k))
        dup = len(set(r['ts'])) < len(r['ts'])
        print('tick after read', k, 'timestamps', r['ts'], 'ret', r.get('ret'), 'DUPLICATE' if dup else '')
