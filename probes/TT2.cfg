SPECIFICATION Spec
INVARIANT Inv
CONSTRAINT Mark
POSTCONDITION Post
CHECK_DEADLOCK FALSE
