import tempfile, os, inspect
from ndn.security import KeychainSqlite3, TpmFile
from ndn.encoding import Name
d = tempfile.mkdtemp()
tpm_path = os.path.join(d, 'tpm'); os.makedirs(tpm_path)
KeychainSqlite3.initialize(os.path.join(d,'pib.db'), 'tpm-file', tpm_path)
kc = KeychainSqlite3(os.path.join(d,'pib.db'), TpmFile(tpm_path))
a = kc.touch_identity('/a'); b = kc.touch_identity('/b')
ka = a.default_key(); kb = b.default_key()
print('len(key a)=', len(ka), 'certs', len(list(ka)))
k2 = a.new_key('ec')
print('len(key a) after second key=', len(a.default_key()), 'certs', len(list(a.default_key())))
# scoping
try:
    print('a[kb] ->', Name.to_str(a[kb.name].name))
except KeyError: print('a[kb] KeyError (scoped)')
print('kb.name in a:', kb.name in a, ' iter a:', [Name.to_str(x) for x in a])
# signer cache w/ key_locator
s1 = kc.get_signer({'key': ka.name, 'key_locator': '/loc'})
s2 = kc.get_signer({'key': kb.name, 'key_locator': '/loc'})
print('same signer object for different keys:', s1 is s2)
# del identity
kc.del_identity('/a')
print('after del /a: ids', [Name.to_str(x) for x in kc], 'tpm files', len(os.listdir(tpm_path)))
import sqlite3
print('orphan keys rows', kc.conn.execute('select count(*) from keys').fetchone(), 'certs', kc.conn.execute('select count(*) from certificates').fetchone())
print('default identity exists', kc.has_default_identity())
import shutil; kc.shutdown(); shutil.rmtree(d)
