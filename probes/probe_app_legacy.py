import asyncio as aio
from vloop import run
from ndn import app as legacy, appv2, types, encoding as enc
from ndn.encoding import ndnlp_v2 as lp
from ndn.security import KeychainDigest
from probe_app_v2 import F
async def scenL():
    face = F(); a = legacy.NDNApp(face, KeychainDigest()); res = {}
    async def main():
        i = enc.make_interest('/zz', enc.InterestParam(lifetime=1000))
        try: await face.callback(0x64, enc.make_network_nack(i, 150))
        except BaseException as e: res['legacy nack-nopending'] = repr(e)
        # cancel then late data
        t = aio.create_task(a.express_interest('/a', lifetime=1000, nonce=None))
        await aio.sleep(0.01); t.cancel()
        try: await t
        except BaseException as e: res['cancel'] = repr(e)
        try: await face.callback(6, enc.make_data('/a', enc.MetaInfo(), b'x'))
        except BaseException as e: res['late data after cancel'] = repr(e)
        a.shutdown()
    await a.main_loop(main())
    return res
print(run(scenL))
# Nack without reason
p = lp.LpPacket(); p.lp_packet = lp.LpPacketValue(); p.lp_packet.nack = lp.NetworkNack(); p.lp_packet.fragment = enc.make_interest('/a', enc.InterestParam())
w = p.encode(); print('nack w/o reason', lp.parse_lp_packet(w))
# v2 reply return value
async def scenR():
    face = F(); a = appv2.NDNApp(face); res = {}
    def h(name, ap, reply, ctx):
        res['ret'] = reply(enc.make_data(name, enc.MetaInfo(), b'x'))
    a.attach_handler('/a', h)
    async def main():
        await face.callback(5, enc.make_interest('/a/1', enc.InterestParam()))
        await aio.sleep(0.01); a.shutdown()
    await a.main_loop(main()); return res
print(run(scenR))
