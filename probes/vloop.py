import asyncio, selectors, time as _time

class _FakeSelector(selectors.BaseSelector):
    def __init__(self, loop_ref): self._loop_ref = loop_ref; self._map = {}
    def register(self, fileobj, events, data=None):
        k = selectors.SelectorKey(fileobj, fileobj if isinstance(fileobj,int) else fileobj.fileno(), events, data); self._map[fileobj]=k; return k
    def unregister(self, fileobj): return self._map.pop(fileobj)
    def select(self, timeout=None):
        loop = self._loop_ref[0]
        if timeout is None:
            raise RuntimeError('virtual loop deadlock: nothing scheduled')
        if timeout > 0: loop._vt += timeout
        return []
    def get_map(self): return self._map
    def close(self): pass

class VLoop(asyncio.SelectorEventLoop):
    def __init__(self, start=1_000_000.0):
        ref = [None]
        super().__init__(selector=_FakeSelector(ref))
        ref[0] = self
        self._vt = start
        self._clock_resolution = 1e-9
    def time(self): return self._vt

def run(coro_fn, start=1_000_000.0):
    loop = VLoop(start)
    asyncio.set_event_loop(loop)
    real = _time.time
    _time.time = lambda: loop._vt
    errs = []
    loop.set_exception_handler(lambda l, ctx: errs.append(ctx))
    try:
        res = loop.run_until_complete(coro_fn())
    finally:
        _time.time = real
        loop.close()
    return res, errs
