---- MODULE ScanP ----
EXTENDS Naturals, Sequences, FiniteSets, TLC
CONSTANTS MaxIn
\* schema: sequence of [t, kind]; kinds: "plain", "rep", "map"
Schemas == { << [t |-> 7, kind |-> "plain"], [t |-> 33, kind |-> "plain"], [t |-> 12, kind |-> "plain"], [t |-> 36, kind |-> "plain"] >>,
             << [t |-> 7, kind |-> "plain"], [t |-> 129, kind |-> "rep"], [t |-> 131, kind |-> "plain"] >>,
             << [t |-> 133, kind |-> "map"], [t |-> 7, kind |-> "plain"] >> }
\* element alphabet: type numbers incl unknown critical (99) and unknown non-critical (100); ok = value well-formed and inside parent
ElemT == {7, 33, 12, 36, 129, 131, 133, 99, 100}
Elem == [t : ElemT, ok : BOOLEAN]
RECURSIVE SeqsUpTo(_)
SeqsUpTo(n) == IF n = 0 THEN {<<>>} ELSE LET S == SeqsUpTo(n-1) IN S \cup {Append(s,e) : s \in {x \in S : Len(x) = n-1}, e \in Elem}
VARIABLES schema, input, pos, fpos, out, status
vars == <<schema, input, pos, fpos, out, status>>
Init == /\ schema \in Schemas /\ input \in SeqsUpTo(MaxIn) /\ pos = 1 /\ fpos = 1 /\ out = <<>> /\ status = "run"
Find(t) == LET C == {i \in fpos..Len(schema) : schema[i].t = t} IN IF C = {} THEN 0 ELSE CHOOSE i \in C : \A j \in C : i <= j
Done == /\ status = "run" /\ pos > Len(input) /\ status' = "accept" /\ UNCHANGED <<schema, input, pos, fpos, out>>
Overrun == /\ status = "run" /\ pos <= Len(input) /\ ~input[pos].ok /\ status' = "reject" /\ UNCHANGED <<schema, input, pos, fpos, out>>
Found == /\ status = "run" /\ pos <= Len(input) /\ input[pos].ok
         /\ LET i == Find(input[pos].t) IN
            /\ i # 0
            /\ IF schema[i].kind = "map"
               THEN IF pos + 1 <= Len(input) /\ input[pos+1].ok
                    THEN out' = Append(out, <<i, pos, pos+1>>) /\ pos' = pos + 2 /\ fpos' = i /\ status' = status
                    ELSE status' = "reject" /\ UNCHANGED <<out, pos, fpos>>
               ELSE /\ out' = Append(out, <<i, pos>>) /\ pos' = pos + 1 /\ status' = status
                    /\ fpos' = (IF schema[i].kind = "rep" THEN i ELSE i + 1)
         /\ UNCHANGED <<schema, input>>
NotFound == /\ status = "run" /\ pos <= Len(input) /\ input[pos].ok /\ Find(input[pos].t) = 0
            /\ IF input[pos].t % 2 = 1 THEN status' = "reject" /\ UNCHANGED pos ELSE pos' = pos + 1 /\ status' = status
            /\ UNCHANGED <<schema, input, fpos, out>>
Next == Done \/ Overrun \/ Found \/ NotFound
Spec == Init /\ [][Next]_vars
Term == status \in {"run","accept","reject"}
====
