"""Probe: materialise a 2-level certificate hierarchy with real keys, validate Data with
lvs_validator on the legacy front-end over the virtual face, then show what a second
validator instance (different trust anchor) does with the shared default key storage."""
import asyncio as aio
from datetime import datetime, timedelta, UTC
from Cryptodome.PublicKey import ECC
import vloop
from ndn import app as legacy, encoding as enc, types
from ndn.security import KeychainDigest
from ndn.security.signer.sha256_ecdsa_signer import Sha256WithEcdsaSigner
from ndn.app_support.security_v2 import self_sign, derive_cert, KEY_COMPONENT
from ndn.app_support.light_versec import compile_lvs, Checker, lvs_validator
from probe_app_v2 import F

LVS = r'''
#site: "s"
#KEY: "KEY"/_/_/_
#root: #site/#KEY
#data: #site/"d"/x <= #user
#user: #site/"u"/u/#KEY <= #root
'''

def keypair():
    k = ECC.generate(curve='P-256')
    return k.export_key(format='DER', use_pkcs8=False), bytes(k.public_key().export_key(format='DER'))

def hierarchy(tag):
    root_pri, root_pub = keypair(); user_pri, user_pub = keypair()
    root_key = enc.Name.from_str('/s/KEY/' + tag)
    root_cert_name, root_cert = self_sign(root_key, root_pub, Sha256WithEcdsaSigner(root_key, root_pri))
    user_key = enc.Name.from_str('/s/u/alice/KEY/1')      # same user key NAME under both hierarchies
    user_cert_name, user_cert = derive_cert(user_key, 'r', user_pub, Sha256WithEcdsaSigner(root_cert_name, root_pri),
                                            datetime.now(UTC), 3600)
    data = enc.make_data('/s/d/hello', enc.MetaInfo(), b'payload-' + tag.encode(), Sha256WithEcdsaSigner(user_cert_name, user_pri))
    return dict(root_cert=bytes(root_cert), user_cert_name=user_cert_name, user_cert=bytes(user_cert), data=bytes(data))

async def scen():
    A = hierarchy('A'); B = hierarchy('B')
    # make B's user certificate carry the same NAME as A's (attacker controls naming): re-issue with A's cert name
    face = F(); app = legacy.NDNApp(face, KeychainDigest()); res = {}
    served = {}
    def on_send(w):
        name, *_ = enc.parse_interest(w)
        key = enc.Name.to_str(name)
        res.setdefault('fetched', []).append(key)
        if key in served:
            aio.get_running_loop().create_task(face.callback(6, served[key]))
    orig = face.send; face.send = lambda d: (orig(d), on_send(bytes(d)))[0]
    checker = Checker(compile_lvs(LVS), {})
    async def validate(validator, wire):
        name, _, _, sig = enc.parse_data(wire)
        return await validator(name, sig)
    async def main():
        served[enc.Name.to_str(A['user_cert_name'])] = A['user_cert']
        vA = lvs_validator(checker, app, A['root_cert'])
        res['A validates A-data'] = await validate(vA, A['data'])
        res['A validates B-data'] = await validate(vA, B['data'])
        # second validator, anchored at B's root; B's user cert is NOT served at all.
        vB = lvs_validator(checker, app, B['root_cert'])
        res['B validates A-data (A chain does not lead to anchor B)'] = await validate(vB, A['data'])
        app.shutdown()
    await app.main_loop(main())
    return res

if __name__ == '__main__':
    r, errs = vloop.run(scen)
    for k, v in r.items(): print(k, '->', v)
    print('errs', errs)
