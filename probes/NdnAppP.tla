---- MODULE NdnAppP ----
EXTENDS Naturals, Sequences, FiniteSets, TLC
CONSTANTS MaxEntries, MaxT, MaxLen, Tmpl, Verdict, Reasons
Comps == {"a","b"}
RECURSIVE SeqsUpTo(_)
SeqsUpTo(n) == IF n = 0 THEN {<<>>} ELSE LET S == SeqsUpTo(n-1) IN S \cup {Append(s,c) : s \in {x \in S : Len(x) = n-1}, c \in Comps}
Names == SeqsUpTo(MaxLen) \ {<<>>}
IntNames == {n \in Names : Len(n) <= MaxLen - 1 \/ MaxLen = 1}
DataIds == 1..2
Data == [k : {"d"}, name : Names, id : {1}] \cup [k : {"d"}, name : {n \in Names : Len(n) = 1}, id : {2}]
EntryId == 1..MaxEntries
Life == {1,2}
None == [k |-> "none"]
IsPrefix(p, n) == Len(p) <= Len(n) /\ SubSeq(n, 1, Len(p)) = p
VARIABLES now, faceUp, pending, ent, outcome, valRun, nextE
vars == <<now, faceUp, pending, ent, outcome, valRun, nextE>>
Matches(d, e) == /\ IF e.cbp THEN IsPrefix(e.name, d.name) ELSE e.name = d.name
                 /\ (e.digest # None => e.digest = d)
D(n, i) == [k |-> "d", name |-> n, id |-> i]
T(n, c, d, l) == [name |-> n, cbp |-> c, digest |-> d, life |-> l]
TmplTiming == {T(<<"a">>, FALSE, None, 1), T(<<"a">>, TRUE, None, 2)}
TmplMatch == {T(<<"a">>, FALSE, None, 1), T(<<"a">>, TRUE, None, 1), T(<<"a","b">>, FALSE, None, 1), T(<<"a">>, TRUE, D(<<"a","b">>,1), 1), T(<<"b">>, TRUE, None, 1)}
Templates == IF Tmpl = "timing" THEN TmplTiming ELSE TmplMatch
Init == /\ now = 0 /\ faceUp = TRUE /\ pending = {} /\ ent = [e \in EntryId |-> None]
        /\ outcome = [e \in EntryId |-> None] /\ valRun = {} /\ nextE = 1
Express(n, cbp, dg, life) ==
  /\ faceUp /\ nextE <= MaxEntries
  /\ ent' = [ent EXCEPT ![nextE] = [k |-> "e", name |-> n, cbp |-> cbp, digest |-> dg, deadline |-> now + life]]
  /\ pending' = pending \cup {nextE} /\ nextE' = nextE + 1
  /\ UNCHANGED <<now, faceUp, outcome, valRun>>
RecvData(d) ==
  /\ faceUp
  /\ LET M == {e \in pending : Matches(d, ent[e])} IN
     /\ pending' = pending \ M
     /\ valRun' = valRun \cup {<<e, d>> : e \in M}
  /\ UNCHANGED <<now, faceUp, ent, outcome, nextE>>
ValFinish(e, d, v) ==
  /\ <<e, d>> \in valRun
  /\ valRun' = valRun \ {<<e, d>>}
  /\ outcome' = IF outcome[e] # None THEN outcome
                ELSE [outcome EXCEPT ![e] = IF v \in {"PASS","BYPASS"} THEN [k |-> "data", d |-> d] ELSE [k |-> "vfail", d |-> d, v |-> v]]
  /\ UNCHANGED <<now, faceUp, pending, ent, nextE>>
Waiting(e) == ent[e] # None /\ outcome[e] = None
Timeout(e) ==
  /\ Waiting(e) /\ now >= ent[e].deadline
  /\ outcome' = [outcome EXCEPT ![e] = [k |-> "timeout", at |-> now]]
  /\ pending' = pending \ {e}
  /\ UNCHANGED <<now, faceUp, ent, valRun, nextE>>
Tick == /\ now < MaxT
        /\ \A e \in EntryId : Waiting(e) => now < ent[e].deadline
        /\ now' = now + 1 /\ UNCHANGED <<faceUp, pending, ent, outcome, valRun, nextE>>
Cancel(e) == /\ Waiting(e)
             /\ outcome' = [outcome EXCEPT ![e] = [k |-> "cancel"]]
             /\ pending' = pending \ {e}
             /\ UNCHANGED <<now, faceUp, ent, valRun, nextE>>
RecvNack(n, dg, r) ==
  /\ faceUp
  /\ LET M == {e \in pending : ent[e].name = n /\ ent[e].digest = dg} IN
     /\ pending' = pending \ M
     /\ outcome' = [e \in EntryId |-> IF e \in M THEN [k |-> "nack", r |-> r] ELSE outcome[e]]
  /\ UNCHANGED <<now, faceUp, ent, valRun, nextE>>
Shutdown == /\ faceUp /\ faceUp' = FALSE
            /\ outcome' = [e \in EntryId |-> IF e \in pending THEN [k |-> "cancel"] ELSE outcome[e]]
            /\ pending' = {}
            /\ UNCHANGED <<now, ent, valRun, nextE>>
Next == \/ \E t \in Templates : Express(t.name, t.cbp, t.digest, t.life)
        \/ \E d \in Data : RecvData(d)
        \/ \E e \in EntryId, d \in Data, v \in Verdict : ValFinish(e, d, v)
        \/ \E e \in EntryId : Timeout(e) \/ Cancel(e)
        \/ Tick
        \/ \E n \in IntNames, dg \in {None}, r \in Reasons : RecvNack(n, dg, r)
        \/ Shutdown
Spec == Init /\ [][Next]_vars
OnceOnly == [][\A e \in EntryId : outcome[e] # None => outcome'[e] = outcome[e]]_vars
NoResidue == \A e \in EntryId : outcome[e] # None => e \notin pending
RightData == \A e \in EntryId : (outcome[e] # None /\ outcome[e].k = "data") => Matches(outcome[e].d, ent[e])
====
