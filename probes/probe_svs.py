"""Probe: drive the real SvsInst on the virtual loop; look at the suppression decision."""
import asyncio as aio, secrets
import vloop
from ndn import appv2, encoding as enc, security as sec
from ndn.app_support.svs import SvsInst
from ndn.app_support.svs.tlv import StateVec, StateVecWrapper, StateVecEntry
from probe_app_v2 import F

def sv_interest(base, sv):
    w = StateVecWrapper(); w.val = StateVec(); w.val.entries = []
    for nid, seq in sv.items():
        e = StateVecEntry(); e.node_id = nid; e.seq_no = seq; w.val.entries.append(e)
    name = enc.Name.normalize(base) + [w.encode()]
    return enc.make_interest(name, enc.InterestParam(), b'', sec.DigestSha256Signer(for_interest=True))

def decode_sv(wire):
    name, _, _, _ = enc.parse_interest(wire)
    sv = StateVecWrapper.parse(name[-2]).val
    return {enc.Name.to_str(e.node_id): e.seq_no for e in sv.entries}

async def scen():
    secrets.randbits = lambda n: 1 << (n - 1)      # fixed jitter
    face = F(); app = appv2.NDNApp(face); res = {'missing': 0, 'log': []}
    inst = SvsInst('/grp', '/me', lambda i: res.__setitem__('missing', res['missing'] + 1),
                   sec.DigestSha256Signer(for_interest=True), appv2.pass_all,
                   sync_interval=30, suppression_interval=0.2)
    def emitted(): return [decode_sv(w) for w in face.out]
    async def main():
        inst.start(app)
        await aio.sleep(0.001)
        inst.new_data(); inst.new_data()           # local /me = 2
        await aio.sleep(0.01)
        res['log'].append(('after publish', emitted(), dict((enc.Name.to_str(k), v) for k, v in inst.local_sv.items())))
        face.out.clear()
        # two outdated vectors heard during one suppression period: local is newer than both in entry /me
        await face.callback(5, sv_interest('/grp', {'/me': 1}))
        await aio.sleep(0.01)
        res['log'].append(('state after 1st outdated', inst.state.name))
        await face.callback(5, sv_interest('/grp', {'/me': 1, '/n1': 0}))
        await aio.sleep(1.0)                        # suppression timer expires
        res['log'].append(('emitted after suppression (expected: one sync Interest, local newer than merge of heard)', emitted(), inst.state.name, res['missing']))
        inst.stop(); app.shutdown()
    await app.main_loop(main())
    return res

if __name__ == '__main__':
    r, errs = vloop.run(scen)
    for l in r['log']: print(l)
    print('errs', errs)
