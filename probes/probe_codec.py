import asyncio as aio, traceback
from ndn import encoding as enc
from ndn.encoding import tlv_model as tm
from ndn.encoding.tlv_model import *

# 1. text field non-ascii
class M(TlvModel):
    s = BytesField(0x81, is_string=True)
    t = UintField(0x82)
m = M(); m.s = 'é'; m.t = 5
try:
    w = m.encode(); print('enc', bytes(w).hex(), 'announced', m.encoded_length())
    print(M.parse(w).asdict())
except Exception as e: print('ERR text', repr(e))

# 2. nested element overrunning parent
class In(TlvModel):
    b = BytesField(0x81)
class Out(TlvModel):
    i = ModelField(0x80, In)
    u = UintField(0x83)
w = bytes([0x80, 0x03, 0x81, 0x05, 0xaa, 0x83, 0x01, 0x07])
try:
    o = Out.parse(w); print('overrun accepted:', o.asdict())
except Exception as e: print('overrun rejected', repr(e))
# top-level overrun
w = bytes([0x81, 0x05, 0xaa])
try:
    o = In.parse(w); print('top overrun accepted:', o.asdict())
except Exception as e: print('top overrun rejected', repr(e))

# 3. interest without name
try:
    print(enc.parse_interest(bytes([0x05, 0x02, 0x21, 0x00])))
except Exception as e: print('noname', repr(e))
# 4. data without name
try:
    print(enc.parse_data(bytes([0x06, 0x00])))
except Exception as e: print('noname data', repr(e))
# 5. truncated T without L
try:
    print(enc.parse_data(bytes([0x06, 0x01, 0x07])))
except Exception as e: print('trunc', repr(e))
# uint bad width
try:
    print(enc.parse_interest(bytes([0x05, 0x07, 0x07,0x00, 0x0c, 0x03, 1,2,3])))
except Exception as e: print('uintw', repr(e))
# repeated critical
try:
    print(enc.parse_interest(bytes([0x05, 0x04, 0x07,0x00, 0x07,0x00])))
except Exception as e: print('dupname', repr(e))
# name component overrun inside name
try:
    print(enc.parse_interest(bytes([0x05, 0x05, 0x07,0x03, 0x08, 0x05, 0x41])))
except Exception as e: print('compoverrun', repr(e))
try:
    print(enc.Name.from_bytes(bytes([0x07,0x03, 0x08, 0x05, 0x41])))
except Exception as e: print('compoverrun2', repr(e))
