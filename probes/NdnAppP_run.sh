#!/bin/bash
cd "$(dirname "$0")"
cat > P.cfg <<EOC
SPECIFICATION Spec
CONSTANTS MaxEntries = $1 MaxT = $2 MaxLen = $3 Tmpl = "$4" Verdict = $5 Reasons = $6
INVARIANT NoResidue
INVARIANT RightData
PROPERTY OnceOnly
CHECK_DEADLOCK FALSE
EOC
echo "== cfg $*"; ( time timeout 600 java -XX:+UseParallelGC -Xmx12g -cp /opt/veriftools/tla/tla2tools.jar:/opt/veriftools/tla/CommunityModules-deps.jar tlc2.TLC -workers 16 -config P.cfg -metadir /tmp/verif-probe-md -noGenerateSpecTE NdnAppP 2>&1 | grep -E "states generated|Error|depth of" ) 2>&1 | grep -E "states gen|real|Error|depth"; rm -rf /tmp/verif-probe-md
