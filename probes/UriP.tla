---- MODULE UriP ----
EXTENDS Naturals, Sequences, FiniteSets, TLC, Json, IOUtils
In == JsonDeserialize(IOEnv.URI_IN)
\* char codes
Ch(s) == CASE s = "=" -> 61 [] s = "%" -> 37 [] s = "/" -> 47
IsDigit(c) == c >= 48 /\ c <= 57
IsUpper(c) == c >= 65 /\ c <= 90
IsLower(c) == c >= 97 /\ c <= 122
InCharset(c) == IsDigit(c) \/ IsUpper(c) \/ IsLower(c) \/ c \in {45, 46, 95, 126, 61, 37}
HexVal(c) == IF IsDigit(c) THEN c - 48 ELSE IF c >= 65 /\ c <= 70 THEN c - 55 ELSE IF c >= 97 /\ c <= 102 THEN c - 87 ELSE 99
HexUp(n) == IF n < 10 THEN 48 + n ELSE 55 + n
HexLo(n) == IF n < 10 THEN 48 + n ELSE 87 + n
Err == <<999>>
CErr == [k |-> "err", t |-> 0, v |-> <<>>]
Comp(t, v) == [k |-> "c", t |-> t, v |-> v]
Str(s) == CASE s = "sha256digest" -> <<115,104,97,50,53,54,100,105,103,101,115,116>>
            [] s = "params-sha256" -> <<112,97,114,97,109,115,45,115,104,97,50,53,54>>
            [] s = "seg" -> <<115,101,103>> [] s = "off" -> <<111,102,102>> [] s = "v" -> <<118>> [] s = "t" -> <<116>> [] s = "seq" -> <<115,101,113>>
AltType(p) == CASE p = Str("seg") -> 50 [] p = Str("off") -> 52 [] p = Str("v") -> 54 [] p = Str("t") -> 56 [] p = Str("seq") -> 58 [] OTHER -> 0
AltPrefix(t) == CASE t = 50 -> Str("seg") [] t = 52 -> Str("off") [] t = 54 -> Str("v") [] t = 56 -> Str("t") [] t = 58 -> Str("seq")
RECURSIVE DecVal(_, _), PctDecode(_), HexDecode(_), DecStr(_), BEBytes(_), BEVal(_, _)
AllDigits(s) == Len(s) > 0 /\ \A i \in 1..Len(s) : IsDigit(s[i])
DecVal(s, acc) == IF s = <<>> THEN acc ELSE DecVal(Tail(s), acc * 10 + (Head(s) - 48))
DecStr(n) == IF n < 10 THEN <<48 + n>> ELSE Append(DecStr(n \div 10), 48 + (n % 10))
\* minimal 1/2/4-byte big endian (values < 2^31 only in this prototype)
BEBytes(n) == IF n < 256 THEN <<n>> ELSE IF n < 65536 THEN <<n \div 256, n % 256>> ELSE << n \div 16777216, (n \div 65536) % 256, (n \div 256) % 256, n % 256 >>
BEVal(v, acc) == IF v = <<>> THEN acc ELSE BEVal(Tail(v), acc * 256 + Head(v))
PctDecode(s) == IF s = <<>> THEN <<>>
                ELSE IF Head(s) = 37 THEN
                    IF Len(s) >= 3 /\ HexVal(s[2]) < 16 /\ HexVal(s[3]) < 16
                    THEN LET r == PctDecode(SubSeq(s, 4, Len(s))) IN IF r = Err THEN Err ELSE <<HexVal(s[2]) * 16 + HexVal(s[3])>> \o r
                    ELSE Err
                ELSE IF ~InCharset(Head(s)) THEN Err
                ELSE LET r == PctDecode(Tail(s)) IN IF r = Err THEN Err ELSE <<Head(s)>> \o r
HexDecode(s) == IF s = <<>> THEN <<>>
                ELSE IF Len(s) >= 2 /\ HexVal(s[1]) < 16 /\ HexVal(s[2]) < 16
                     THEN LET r == HexDecode(SubSeq(s, 3, Len(s))) IN IF r = Err THEN Err ELSE <<HexVal(s[1]) * 16 + HexVal(s[2])>> \o r
                     ELSE Err
EqPos(s) == {i \in 1..Len(s) : s[i] = 61}
UriToComp(s) ==
  IF s = <<>> THEN Comp(8, <<>>)
  ELSE IF \E i \in 1..Len(s) : ~InCharset(s[i]) THEN CErr
  ELSE IF Cardinality(EqPos(s)) > 1 THEN CErr
  ELSE IF EqPos(s) = {} THEN LET v == PctDecode(s) IN IF v = Err THEN CErr ELSE Comp(8, v)
  ELSE LET e == CHOOSE i \in EqPos(s) : TRUE
           pre == SubSeq(s, 1, e - 1)
           post == SubSeq(s, e + 1, Len(s))
       IN IF pre = Str("sha256digest") THEN (LET v == HexDecode(post) IN IF v = Err THEN CErr ELSE Comp(1, v))
          ELSE IF pre = Str("params-sha256") THEN (LET v == HexDecode(post) IN IF v = Err THEN CErr ELSE Comp(2, v))
          ELSE IF AltType(pre) # 0 THEN (IF AllDigits(post) THEN Comp(AltType(pre), BEBytes(DecVal(post, 0))) ELSE CErr)
          ELSE IF ~AllDigits(pre) \/ Len(pre) > 5 THEN CErr
          ELSE LET t == DecVal(pre, 0) IN IF t = 0 \/ t > 65535 THEN CErr
               ELSE LET v == PctDecode(post) IN IF v = Err THEN CErr ELSE Comp(t, v)
EscByte(b) == IF InCharset(b) /\ b # 37 /\ b # 61 THEN <<b>> ELSE <<37, HexUp(b \div 16), HexUp(b % 16)>>
RECURSIVE Esc(_), HexLower(_)
Esc(v) == IF v = <<>> THEN <<>> ELSE EscByte(Head(v)) \o Esc(Tail(v))
HexLower(v) == IF v = <<>> THEN <<>> ELSE <<HexLo(Head(v) \div 16), HexLo(Head(v) % 16)>> \o HexLower(Tail(v))
Canonical(c) == (IF c.t = 8 THEN <<>> ELSE DecStr(c.t) \o <<61>>) \o Esc(c.v)
\* judge records: [t, v, to_str, canon, from_canon (t,v or err)]
Bad == {i \in 1..Len(In.recs) :
          LET r == In.recs[i]  c == Comp(r.t, r.v) IN
          ~ ( /\ UriToComp(r.to_str) = c          \* code -> spec: library spelling parses back to the same component
              /\ UriToComp(r.canon) = c
              /\ r.canon = Canonical(c)           \* canonical form is exact
              /\ r.from_canon = [t |-> c.t, v |-> c.v] )}   \* spec -> code: library parses the spec's canonical form
ASSUME PrintT(<<"checked", Len(In.recs), "bad", {<<In.recs[i].t, In.recs[i].v>> : i \in Bad}>>)
VARIABLE d
Init == d = 0
Next == UNCHANGED d
====
